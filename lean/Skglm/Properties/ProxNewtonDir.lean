import Skglm.Model.ProxNewtonDir
import Skglm.Properties.ProxNewton
import Skglm.Proofs.Run
/-
  `_descent_direction` of the prox-Newton solver (model: `Skglm/Model/ProxNewtonDir.lean`)
  PRODUCES a direction that satisfies the hypotheses the line-search theorems of
  `Skglm/Properties/ProxNewton.lean` assume.

  (a) `dir_invariant`, `direction_consistent`, `direction_outside_ws`, `direction_db_zero`,
      composed: `pn_iteration_consistent`, `pn_iteration_never_ascends`;
  (b) `dir_step_model_descent`, `dir_intercept_model_descent`, `dir_loop_model_descent`:
      the inner coordinate descent never increases the quadratic model it minimises;
  (c) `dir_zero_column`: a zero column has constant `0` and never moves — and the converse fails
      (`dir_skip_nonzero_column`): the test `lipschitz_ws[idx] == 0` also skips non-zero columns
      when the Hessian weights vanish on their support;
  (d) `intercept_step_div_zero`, `intercept_step_skipped_when_flat`: the intercept update is
      skipped when `sum(raw_hess) == 0` (guard added by the repair; before, the code divided by
      zero) — on a flat model the solver cannot move.
-/
namespace Skglm.PNDirP
open Skglm Skglm.Spec Skglm.Proofs Skglm.PN
variable {n p : Nat}

/-! ### normal form of the two moves -/

theorem DirState.ext' {s t : DirState ℝ n p} (hw : s.w = t.w) (hb : s.b = t.b)
    (hx : s.XdW = t.XdW) : s = t := by
  cases s; cases t; simp_all

/-- set the trial coefficient `j` to `new` and update the buffer -/
def moveCoord (P : CDProb ℝ n p) (s : DirState ℝ n p) (j : Fin p) (new : ℝ) : DirState ℝ n p :=
  { w := fun k => if k = j then new else s.w k
    b := s.b
    XdW := fun i => s.XdW i + (new - s.w j) * P.X i j }

/-- set the trial intercept to `b'` and update the buffer -/
def moveInt (s : DirState ℝ n p) (b' : ℝ) : DirState ℝ n p :=
  { w := s.w, b := b', XdW := fun i => s.XdW i + (b' - s.b) }

theorem moveCoord_self (P : CDProb ℝ n p) (s : DirState ℝ n p) (j : Fin p) :
    moveCoord P s j (s.w j) = s := by
  apply DirState.ext'
  · funext k; by_cases hk : k = j
    · subst hk; simp [moveCoord]
    · simp [moveCoord, hk]
  · rfl
  · funext i; simp [moveCoord]

theorem moveInt_self (s : DirState ℝ n p) : moveInt s s.b = s := by
  apply DirState.ext' <;> simp [moveInt]

/-- `past_grads[idx]` -/
noncomputable def pastGrad (P : CDProb ℝ n p) (c : DirCtx ℝ n p) (s : DirState ℝ n p) (j : Fin p) : ℝ :=
  c.g j + ∑ i, P.X i j * (c.h i * s.XdW i)

/-- the value written to `w_ws[idx]` (the old one when the feature is skipped) -/
noncomputable def dirNew (P : CDProb ℝ n p) (c : DirCtx ℝ n p) (s : DirState ℝ n p) (j : Fin p) : ℝ :=
  if c.L j = 0 then s.w j
  else P.pen.prox1 (P.wts j) (s.w j - 1 / c.L j * pastGrad P c s j) (1 / c.L j)

theorem dirStep_eq (P : CDProb ℝ n p) (c : DirCtx ℝ n p) (s : DirState ℝ n p) (j : Fin p) :
    P.dirStep c s j = moveCoord P s j (dirNew P c s j) := by
  unfold CDProb.dirStep dirNew pastGrad
  by_cases hL : c.L j = 0
  · rw [if_pos ((eqb_iff _ _).2 hL), if_pos hL, moveCoord_self]
  · have hL' : ¬ (eqb (c.L j) 0 = true) := fun h => hL ((eqb_iff _ _).1 h)
    rw [if_neg hL', if_neg hL]
    simp only [vsum_eq, mat_eq]
    split_ifs with he
    · rw [eqb_iff] at he
      rw [he, moveCoord_self]
      apply DirState.ext'
      · funext k; by_cases hk : k = j
        · subst hk; simp
        · simp [hk]
      · rfl
      · rfl
    · rfl

/-- `if lipschitz_ws[idx] == 0: continue` -/
theorem dirStep_skip (P : CDProb ℝ n p) (c : DirCtx ℝ n p) (s : DirState ℝ n p) (j : Fin p)
    (h : c.L j = 0) : P.dirStep c s j = s := by
  unfold CDProb.dirStep
  rw [if_pos ((eqb_iff _ _).2 h)]

/-- `past_grads_intercept` -/
noncomputable def pastGradInt (c : DirCtx ℝ n p) (s : DirState ℝ n p) : ℝ :=
  c.gb + ∑ i, c.h i * s.XdW i

/-- the value written to `w_ws[-1]`: the old one when `lipschitz_intercept == 0` (the guard) -/
noncomputable def intNew (c : DirCtx ℝ n p) (s : DirState ℝ n p) : ℝ :=
  if c.Lb = 0 then s.b else s.b - pastGradInt c s / c.Lb

theorem dirInterceptStep_eq (c : DirCtx ℝ n p) (s : DirState ℝ n p) :
    CDProb.dirInterceptStep c s = moveInt s (intNew c s) := by
  have key : ∀ b' : ℝ,
      (if eqb b' s.b = true then ({ w := s.w, b := b', XdW := s.XdW } : DirState ℝ n p)
        else { w := s.w, b := b', XdW := mat (fun i => s.XdW i + (b' - s.b)) }) = moveInt s b' := by
    intro b'
    split_ifs with he
    · rw [eqb_iff] at he
      rw [he, moveInt_self]
    · simp only [mat_eq]; rfl
  unfold CDProb.dirInterceptStep intNew pastGradInt
  by_cases hL : c.Lb = 0
  · simp only [if_pos ((eqb_iff _ _).2 hL), if_pos hL]
    exact key _
  · have hL' : ¬ (eqb c.Lb 0 = true) := fun h => hL ((eqb_iff _ _).1 h)
    simp only [if_neg hL', if_neg hL, vsum_eq]
    exact key _

/-! ### (a) the invariant -/

/-- what `_descent_direction` maintains: the buffer is `X (w_ws − w_epoch) + (b_ws − b_epoch)`,
    nothing moves outside the working set, the intercept does not move without `fit_intercept` -/
structure DirInv (P : CDProb ℝ n p) (s0 : CDState ℝ n p) (ws : List (Fin p))
    (s : DirState ℝ n p) : Prop where
  buf : ∀ i, s.XdW i = (∑ j, P.X i j * (s.w j - s0.w j)) + (s.b - s0.b)
  out : ∀ j, j ∉ ws → s.w j = s0.w j
  noint : P.fitInt = false → s.b = s0.b

theorem sum_sub_split (x w w0 : Fin p → ℝ) :
    ∑ k, x k * (w k - w0 k) = (∑ k, x k * w k) - ∑ k, x k * w0 k := by
  simp only [mul_sub, Finset.sum_sub_distrib]

theorem init_inv (P : CDProb ℝ n p) (s0 : CDState ℝ n p) (ws : List (Fin p)) :
    DirInv P s0 ws (CDProb.dirInit s0) :=
  ⟨fun i => by simp [CDProb.dirInit], fun _ _ => rfl, fun _ => rfl⟩

theorem moveCoord_inv (P : CDProb ℝ n p) (s0 : CDState ℝ n p) (ws : List (Fin p))
    (s : DirState ℝ n p) (j : Fin p) (new : ℝ) (hj : j ∈ ws ∨ new = s.w j)
    (h : DirInv P s0 ws s) : DirInv P s0 ws (moveCoord P s j new) := by
  refine ⟨fun i => ?_, fun k hk => ?_, h.noint⟩
  · simp only [moveCoord]
    rw [sum_sub_split, CDA.sum_update_one, h.buf i, sum_sub_split]; ring
  · simp only [moveCoord]
    by_cases hkj : k = j
    · subst hkj
      rcases hj with hj | hj
      · exact absurd hj hk
      · rw [if_pos rfl, hj]; exact h.out k hk
    · rw [if_neg hkj]; exact h.out k hk

theorem moveInt_inv (P : CDProb ℝ n p) (s0 : CDState ℝ n p) (ws : List (Fin p))
    (s : DirState ℝ n p) (b' : ℝ) (hfi : P.fitInt = true) (h : DirInv P s0 ws s) :
    DirInv P s0 ws (moveInt s b') := by
  refine ⟨fun i => ?_, h.out, fun hf => ?_⟩
  · simp only [moveInt]; rw [h.buf i]; ring
  · rw [hfi] at hf; cases hf

/-- one coordinate step keeps the invariant (any constants `c`: the invariant does not depend on
    how the step is chosen) -/
theorem dirStep_inv (P : CDProb ℝ n p) (c : DirCtx ℝ n p) (s0 : CDState ℝ n p) (ws : List (Fin p))
    (s : DirState ℝ n p) (j : Fin p) (hj : j ∈ ws) (h : DirInv P s0 ws s) :
    DirInv P s0 ws (P.dirStep c s j) := by
  rw [dirStep_eq]; exact moveCoord_inv P s0 ws s j _ (Or.inl hj) h

theorem dirInterceptStep_inv (P : CDProb ℝ n p) (c : DirCtx ℝ n p) (s0 : CDState ℝ n p)
    (ws : List (Fin p)) (s : DirState ℝ n p) (hfi : P.fitInt = true) (h : DirInv P s0 ws s) :
    DirInv P s0 ws (CDProb.dirInterceptStep c s) := by
  rw [dirInterceptStep_eq]; exact moveInt_inv P s0 ws s _ hfi h

theorem foldl_inv (P : CDProb ℝ n p) (c : DirCtx ℝ n p) (s0 : CDState ℝ n p) (ws : List (Fin p))
    (l : List (Fin p)) (hl : ∀ j ∈ l, j ∈ ws) (s : DirState ℝ n p) (h : DirInv P s0 ws s) :
    DirInv P s0 ws (l.foldl (P.dirStep c) s) := by
  induction l generalizing s with
  | nil => exact h
  | cons j l ih =>
    rw [List.foldl_cons]
    exact ih (fun k hk => hl k (List.mem_cons_of_mem _ hk)) _
      (dirStep_inv P c s0 ws s j (hl j List.mem_cons_self) h)

theorem dirEpoch_inv (P : CDProb ℝ n p) (c : DirCtx ℝ n p) (s0 : CDState ℝ n p) (ws : List (Fin p))
    (s : DirState ℝ n p) (h : DirInv P s0 ws s) : DirInv P s0 ws (P.dirEpoch c ws s) := by
  unfold CDProb.dirEpoch
  have h' := foldl_inv P c s0 ws ws (fun _ hj => hj) s h
  dsimp only
  split_ifs with hfi
  · exact dirInterceptStep_inv P c s0 ws _ hfi h'
  · exact h'

theorem dirLoop_inv (P : CDProb ℝ n p) (c : DirCtx ℝ n p) (s0 : CDState ℝ n p) (ws : List (Fin p))
    (k : Nat) (s : DirState ℝ n p) (h : DirInv P s0 ws s) : DirInv P s0 ws (P.dirLoop c ws k s) := by
  induction k generalizing s with
  | zero => exact h
  | succ k ih => exact ih _ (dirEpoch_inv P c s0 ws s h)

/-- **(a)** after any number of epochs from the initial state — for any loop constants —
    `X_delta_w_ws = X (w_ws − w_epoch) + (b_ws − b_epoch)`, coefficients outside the working set
    and (without `fit_intercept`) the intercept have not moved -/
theorem dir_invariant (P : CDProb ℝ n p) (c : DirCtx ℝ n p) (s0 : CDState ℝ n p) (ws : List (Fin p))
    (k : Nat) : DirInv P s0 ws (P.dirLoop c ws k (CDProb.dirInit s0)) :=
  dirLoop_inv P c s0 ws k _ (init_inv P s0 ws)

/-- the invariant is what the line search calls a consistent direction -/
theorem direction_of_inv (P : CDProb ℝ n p) (s0 : CDState ℝ n p) (ws : List (Fin p))
    (s : DirState ℝ n p) (h : DirInv P s0 ws s) :
    DirConsistent P (P.direction s0 s) ∧ (∀ j, j ∉ ws → (P.direction s0 s).dw j = 0) ∧
      (P.fitInt = false → (P.direction s0 s).db = 0) := by
  refine ⟨fun i => ?_, fun j hj => ?_, fun hf => ?_⟩
  · simp only [CDProb.direction, mat_eq]
    rw [h.buf i]
    cases hfi : P.fitInt with
    | true => simp
    | false => simp [h.noint hfi]
  · simp only [CDProb.direction, mat_eq]; rw [h.out j hj]; ring
  · simp only [CDProb.direction, hf]; rfl

/-- the direction returned by `_descent_direction` satisfies `Xd = X dw + db`
    (hypothesis `hd` of the line-search theorems) -/
theorem direction_consistent (P : CDProb ℝ n p) (s0 : CDState ℝ n p) (ws : List (Fin p)) (k : Nat) :
    DirConsistent P (P.descentDirection s0 ws k) :=
  (direction_of_inv P s0 ws _ (dir_invariant P _ s0 ws _)).1

/-- it is zero outside the working set -/
theorem direction_outside_ws (P : CDProb ℝ n p) (s0 : CDState ℝ n p) (ws : List (Fin p)) (k : Nat)
    (j : Fin p) (hj : j ∉ ws) : (P.descentDirection s0 ws k).dw j = 0 :=
  (direction_of_inv P s0 ws _ (dir_invariant P _ s0 ws _)).2.1 j hj

/-- and has no intercept component without `fit_intercept` (hypothesis `hdb`) -/
theorem direction_db_zero (P : CDProb ℝ n p) (s0 : CDState ℝ n p) (ws : List (Fin p)) (k : Nat)
    (hf : P.fitInt = false) : (P.descentDirection s0 ws k).db = 0 :=
  (direction_of_inv P s0 ws _ (dir_invariant P _ s0 ws _)).2.2 hf

/-- **one prox-Newton iteration keeps `Xw = X w + b`**: direction (any number of inner epochs, any
    working set) then line search (any budget, whatever the tests decide).
    (The model keeps one trial coefficient per *feature*; the code keeps one per *position* of
    `ws`, which is the same thing for the duplicate-free `ws` that `np.argpartition` returns.) -/
theorem pn_iteration_consistent (fuel k : Nat) (P : CDProb ℝ n p) (s0 : CDState ℝ n p)
    (ws : List (Fin p)) (hs : Consistent P s0) : Consistent P (P.pnIteration fuel k s0 ws) :=
  backtrack_consistent fuel P s0 _ hs (direction_consistent P s0 ws k)

/-- **one prox-Newton iteration never increases the objective** (finite penalty value at the epoch
    point, convex datafit): the hypotheses `hd`, `hdb` of `PN.backtrack_never_ascends` are
    discharged by the direction the code computes -/
theorem pn_iteration_never_ascends (fuel k : Nat) (P : CDProb ℝ n p) (s0 : CDState ℝ n p)
    (ws : List (Fin p)) (po : ℝ) (hpo : P.pen.value P.wts s0.w = .fin po)
    (hsw : ∀ i, 0 ≤ P.sw i) (hN : 0 ≤ P.df.normaliser P.sw)
    (hdelta : ∀ δ, P.df = .huber δ → 0 < δ) (hgamma : P.df = .gamma → ∀ i, 0 ≤ P.y i)
    (hlin : P.df.lin = 0) :
    Ext.le (P.objective (P.pnIteration (fuel + 1) k s0 ws)) (P.objective s0) = true :=
  backtrack_never_ascends fuel P s0 _ po hpo (direction_consistent P s0 ws k) hsw hN hdelta hgamma
    hlin (direction_db_zero P s0 ws k)

/-- … and it either strictly decreases it or returns the epoch point unchanged -/
theorem pn_iteration_descends_or_stays (fuel k : Nat) (P : CDProb ℝ n p) (s0 : CDState ℝ n p)
    (ws : List (Fin p)) (po : ℝ) (hpo : P.pen.value P.wts s0.w = .fin po)
    (hsw : ∀ i, 0 ≤ P.sw i) (hN : 0 ≤ P.df.normaliser P.sw)
    (hdelta : ∀ δ, P.df = .huber δ → 0 < δ) (hgamma : P.df = .gamma → ∀ i, 0 ≤ P.y i)
    (hlin : P.df.lin = 0) :
    (∃ a b, P.objective (P.pnIteration (fuel + 1) k s0 ws) = .fin a ∧ P.objective s0 = .fin b ∧
      a < b) ∨ P.pnIteration (fuel + 1) k s0 ws = s0 := by
  rcases backtrack_descends_or_stays fuel P s0 (P.descentDirection s0 ws k) po hpo
    (direction_consistent P s0 ws k) hsw hN hdelta hgamma hlin (direction_db_zero P s0 ws k) with
    ⟨_, a, b, _, _, ha, hb, hab⟩ | ⟨_, hr⟩
  · exact Or.inl ⟨a, b, ha, hb, hab⟩
  · exact Or.inr hr

/-! ### the loop constants over ℝ -/

theorem hessLips_eq (P : CDProb ℝ n p) (Xw : Fin n → ℝ) (j : Fin p) :
    P.hessLips Xw j = ∑ i, P.df.rawHess P.sw P.y Xw i * (P.X i j * P.X i j) := by
  unfold CDProb.hessLips; rw [vsum_eq]

@[simp] theorem dirCtx_h (P : CDProb ℝ n p) (s0 : CDState ℝ n p) :
    (P.dirCtx s0).h = P.df.rawHess P.sw P.y s0.Xw := by
  simp [CDProb.dirCtx]

theorem dirCtx_g (P : CDProb ℝ n p) (s0 : CDState ℝ n p) (j : Fin p) :
    (P.dirCtx s0).g j = ∑ i, P.X i j * P.df.rawGrad P.sw P.y s0.Xw i := by
  simp [CDProb.dirCtx, CDProb.pnGrad, vsum_eq]

/-- the constant the loop tests is `lipschitz_ws[idx] = raw_hess @ X[:, j] ** 2` -/
theorem dirCtx_L (P : CDProb ℝ n p) (s0 : CDState ℝ n p) (j : Fin p) :
    (P.dirCtx s0).L j = P.hessLips s0.Xw j := by
  simp [CDProb.dirCtx, CDProb.hessLips]

theorem dirCtx_Lb (P : CDProb ℝ n p) (s0 : CDState ℝ n p) :
    (P.dirCtx s0).Lb = ∑ i, P.df.rawHess P.sw P.y s0.Xw i := by
  simp [CDProb.dirCtx, vsum_eq]

theorem dirCtx_gb (P : CDProb ℝ n p) (s0 : CDState ℝ n p) :
    (P.dirCtx s0).gb = ∑ i, P.df.rawGrad P.sw P.y s0.Xw i := by
  simp [CDProb.dirCtx, vsum_eq]

theorem d2loss1_nonneg (d : DF ℝ) (y u : ℝ) (hgamma : d = .gamma → 0 ≤ y) : 0 ≤ d.d2loss1 y u := by
  cases d <;> simp only [DF.d2loss1, scalar_exp_eq] <;> try positivity
  exact mul_nonneg (hgamma rfl) (Real.exp_pos _).le

theorem d2loss1_pos (d : DF ℝ) (y u : ℝ) (hgamma : d = .gamma → 0 < y) : 0 < d.d2loss1 y u := by
  cases d <;> simp only [DF.d2loss1, scalar_exp_eq] <;> try positivity
  exact mul_pos (hgamma rfl) (Real.exp_pos _)

/-- `D = diag raw_hess ≥ 0` (discharges `hh` below) -/
theorem rawHess_nonneg (d : DF ℝ) (sw y u : Fin n → ℝ) (hsw : ∀ i, 0 ≤ sw i)
    (hN : 0 ≤ d.normaliser sw) (hgamma : d = .gamma → ∀ i, 0 ≤ y i) (i : Fin n) :
    0 ≤ d.rawHess sw y u i :=
  div_nonneg (mul_nonneg (hsw i) (d2loss1_nonneg d _ _ (fun h => hgamma h i))) hN

theorem rawHess_pos (d : DF ℝ) (sw y u : Fin n → ℝ) (hsw : ∀ i, 0 < sw i)
    (hN : 0 < d.normaliser sw) (hgamma : d = .gamma → ∀ i, 0 < y i) (i : Fin n) :
    0 < d.rawHess sw y u i :=
  div_pos (mul_pos (hsw i) (d2loss1_pos d _ _ (fun h => hgamma h i))) hN

/-! ### (b) the inner loop descends on the quadratic model -/

/-- increment of the linear predictor: `X (w − w_epoch) + (b − b_epoch)` -/
noncomputable def dlin (P : CDProb ℝ n p) (s0 : CDState ℝ n p) (w : Fin p → ℝ) (b : ℝ) :
    Fin n → ℝ :=
  fun i => (∑ j, P.X i j * (w j - s0.w j)) + (b - s0.b)

/-- smooth part of the model as a function of the increment `u` of the linear predictor:
    `∇F·u + ½ uᵀ D u`, `∇F = raw_grad`, `D = diag raw_hess` at the epoch point -/
noncomputable def qSmooth (P : CDProb ℝ n p) (s0 : CDState ℝ n p) (u : Fin n → ℝ) : ℝ :=
  (∑ i, P.df.rawGrad P.sw P.y s0.Xw i * u i)
    + (∑ i, P.df.rawHess P.sw P.y s0.Xw i * (u i * u i)) / 2

/-- the quadratic model `_descent_direction` minimises, from `X, y, w_epoch, w, b` alone:
    `Q = ∇F·XΔ + ½ (XΔ)ᵀ D (XΔ) + penalty(w)` (`inf` when the penalty is) -/
noncomputable def qModel (P : CDProb ℝ n p) (s0 : CDState ℝ n p) (w : Fin p → ℝ) (b : ℝ) : Ext ℝ :=
  Ext.add (.fin (qSmooth P s0 (dlin P s0 w b))) (P.pen.value P.wts w)

/-- the model at a state of the inner loop -/
noncomputable def qState (P : CDProb ℝ n p) (s0 : CDState ℝ n p) (s : DirState ℝ n p) : Ext ℝ :=
  qModel P s0 s.w s.b

theorem qSmooth_add (P : CDProb ℝ n p) (s0 : CDState ℝ n p) (u x : Fin n → ℝ) (δ : ℝ) :
    qSmooth P s0 (fun i => u i + δ * x i) = qSmooth P s0 u
      + δ * ((∑ i, x i * P.df.rawGrad P.sw P.y s0.Xw i)
          + ∑ i, x i * (P.df.rawHess P.sw P.y s0.Xw i * u i))
      + δ ^ 2 / 2 * ∑ i, P.df.rawHess P.sw P.y s0.Xw i * (x i * x i) := by
  unfold qSmooth
  generalize P.df.rawGrad P.sw P.y s0.Xw = r
  generalize P.df.rawHess P.sw P.y s0.Xw = h
  have e1 : ∀ i, r i * (u i + δ * x i) = r i * u i + δ * (x i * r i) := fun i => by ring
  have e2 : ∀ i, h i * ((u i + δ * x i) * (u i + δ * x i))
      = h i * (u i * u i) + (2 * δ) * (x i * (h i * u i)) + δ ^ 2 * (h i * (x i * x i)) :=
    fun i => by ring
  simp only [e1, e2, Finset.sum_add_distrib, ← Finset.mul_sum]
  ring

theorem dlin_update (P : CDProb ℝ n p) (s0 : CDState ℝ n p) (w : Fin p → ℝ) (b : ℝ) (j : Fin p)
    (new : ℝ) : dlin P s0 (fun k => if k = j then new else w k) b
      = fun i => dlin P s0 w b i + (new - w j) * P.X i j := by
  funext i
  simp only [dlin]
  rw [sum_sub_split, CDA.sum_update_one, sum_sub_split]; ring

/-- a prox step of size `1/L` on coordinate `j`, with `L` the curvature of the model along `j` and
    `pg` its partial derivative, does not increase the model -/
theorem coord_model_descent (P : CDProb ℝ n p) (s0 : CDState ℝ n p) (w : Fin p → ℝ) (b : ℝ)
    (j : Fin p) (L pg : ℝ) (hL : 0 < L)
    (hLdef : L = ∑ i, P.df.rawHess P.sw P.y s0.Xw i * (P.X i j * P.X i j))
    (hpg : pg = (∑ i, P.X i j * P.df.rawGrad P.sw P.y s0.Xw i)
      + ∑ i, P.X i j * (P.df.rawHess P.sw P.y s0.Xw i * dlin P s0 w b i))
    (hprox : ProxOptimal P j (1 / L))
    (hg : ∀ a g pos, P.pen = .mcp a g pos ∨ P.pen = .wmcp a g pos → 0 < g) :
    Ext.le (qModel P s0
        (fun k => if k = j then P.pen.prox1 (P.wts j) (w j - 1 / L * pg) (1 / L) else w k) b)
      (qModel P s0 w b) = true := by
  by_cases hinf : ∃ k, P.pen.pen1 (P.wts k) (w k) = .inf
  · have : qModel P s0 w b = .inf := by
      unfold qModel SepPen.value
      rw [CDB.esum_inf _ hinf]; rfl
    rw [this]; exact CDB.le_inf _
  push Not at hinf
  have hpr := hprox (w j - 1 / L * pg) (w j)
  generalize P.pen.prox1 (P.wts j) (w j - 1 / L * pg) (1 / L) = new at hpr ⊢
  set A : Fin p → ℝ := fun k => CDB.val (P.pen.pen1 (P.wts k) (w k)) with hA
  have hAk : ∀ k, P.pen.pen1 (P.wts k) (w k) = .fin (A k) := fun k => CDB.eq_fin_val (hinf k)
  have hold : pen P.pen (P.wts j) (w j) = some (A j) := by
    rw [← CDB.pen1_eq_spec _ _ _ hg, hAk j]; rfl
  unfold ProxLe at hpr
  rw [hold] at hpr
  cases hpn : pen P.pen (P.wts j) new with
  | none => rw [hpn] at hpr; exact hpr.elim
  | some pu =>
    rw [hpn] at hpr
    simp only at hpr
    have hnewfin : P.pen.pen1 (P.wts j) new = .fin pu := by
      apply CDB.eq_fin_of_toOption
      rw [CDB.pen1_eq_spec _ _ _ hg, hpn]
    have hLq : L * (1 / L) = 1 := by field_simp
    generalize 1 / L = q at hpr hLq
    have hkey : L / 2 * (new - w j) ^ 2 + (new - w j) * pg + pu ≤ A j := by
      have h1 := mul_le_mul_of_nonneg_left hpr hL.le
      have e1 : L * ((new - (w j - q * pg)) ^ 2 / 2 + q * pu)
          = L / 2 * (new - w j) ^ 2 + (new - w j) * pg * (L * q) + (L * q) * (pg ^ 2 * q) / 2
            + (L * q) * pu := by ring
      have e2 : L * ((w j - (w j - q * pg)) ^ 2 / 2 + q * A j)
          = (L * q) * (pg ^ 2 * q) / 2 + (L * q) * A j := by ring
      rw [e1, e2, hLq] at h1
      linarith
    have hQs : qModel P s0 w b = .fin (qSmooth P s0 (dlin P s0 w b) + ∑ k, A k) := by
      unfold qModel SepPen.value
      rw [CDB.esum_fin _ A hAk]; rfl
    have hQn : qModel P s0 (fun k => if k = j then new else w k) b
        = .fin (qSmooth P s0 (fun i => dlin P s0 w b i + (new - w j) * P.X i j)
            + ∑ k, (if k = j then pu else A k)) := by
      unfold qModel SepPen.value
      rw [CDB.esum_fin _ (fun k => if k = j then pu else A k) (fun k => by
        by_cases hk : k = j
        · subst hk; simp only [if_true]; exact hnewfin
        · simp only [if_neg hk]; exact hAk k), dlin_update]
      rfl
    have hadd := qSmooth_add P s0 (dlin P s0 w b) (fun i => P.X i j) (new - w j)
    rw [hQs, hQn, CDB.sum_ite_replace, hadd, ← hpg, ← hLdef]
    apply CDB.fin_le_fin
    nlinarith [hkey]

/-- the intercept move `b ← b − pg / Lb` does not increase the model when `0 < Lb = Σ raw_hess` -/
theorem int_model_descent (P : CDProb ℝ n p) (s0 : CDState ℝ n p) (w : Fin p → ℝ) (b Lb pg : ℝ)
    (hLb : 0 < Lb) (hLbdef : Lb = ∑ i, P.df.rawHess P.sw P.y s0.Xw i)
    (hpg : pg = (∑ i, P.df.rawGrad P.sw P.y s0.Xw i)
      + ∑ i, P.df.rawHess P.sw P.y s0.Xw i * dlin P s0 w b i) :
    Ext.le (qModel P s0 w (b - pg / Lb)) (qModel P s0 w b) = true := by
  unfold qModel
  apply CDB.add_le_add_fin
  have hb : dlin P s0 w (b - pg / Lb)
      = fun i => dlin P s0 w b i + (-(pg / Lb)) * (fun _ => (1 : ℝ)) i := by
    funext i; simp only [dlin]; ring
  rw [hb, qSmooth_add]
  simp only [one_mul, mul_one]
  rw [← hpg, ← hLbdef]
  have e : -(pg / Lb) * pg + (-(pg / Lb)) ^ 2 / 2 * Lb = -(pg ^ 2 / (2 * Lb)) := by
    field_simp; ring
  have h2 : 0 ≤ pg ^ 2 / (2 * Lb) := by positivity
  linarith

/-- **(b)** one coordinate step of `_descent_direction` does not increase the quadratic model, for
    every penalty whose `prox_1d` is a global minimiser at the step `1 / lipschitz_ws[idx]`
    (`hprox`; discharged by C07 in `dir_step_model_descent_of_admissible`) and `D ≥ 0` -/
theorem dir_step_model_descent (P : CDProb ℝ n p) (s0 : CDState ℝ n p) (ws : List (Fin p))
    (s : DirState ℝ n p) (j : Fin p) (hinv : DirInv P s0 ws s)
    (hh : ∀ i, 0 ≤ P.df.rawHess P.sw P.y s0.Xw i)
    (hprox : P.hessLips s0.Xw j ≠ 0 → ProxOptimal P j (1 / P.hessLips s0.Xw j))
    (hg : ∀ a g pos, P.pen = .mcp a g pos ∨ P.pen = .wmcp a g pos → 0 < g) :
    Ext.le (qState P s0 (P.dirStep (P.dirCtx s0) s j)) (qState P s0 s) = true := by
  rw [dirStep_eq]
  by_cases hL0 : (P.dirCtx s0).L j = 0
  · have : dirNew P (P.dirCtx s0) s j = s.w j := if_pos hL0
    rw [this, moveCoord_self]; exact CDB.le_refl' _
  · have hnew : dirNew P (P.dirCtx s0) s j
        = P.pen.prox1 (P.wts j) (s.w j - 1 / (P.dirCtx s0).L j * pastGrad P (P.dirCtx s0) s j)
            (1 / (P.dirCtx s0).L j) := if_neg hL0
    have hLe : (P.dirCtx s0).L j = ∑ i, P.df.rawHess P.sw P.y s0.Xw i * (P.X i j * P.X i j) := by
      rw [dirCtx_L, hessLips_eq]
    have hLpos : 0 < (P.dirCtx s0).L j := by
      refine lt_of_le_of_ne ?_ (Ne.symm hL0)
      rw [hLe]
      exact Finset.sum_nonneg (fun i _ => mul_nonneg (hh i) (mul_self_nonneg _))
    have hpg : pastGrad P (P.dirCtx s0) s j
        = (∑ i, P.X i j * P.df.rawGrad P.sw P.y s0.Xw i)
          + ∑ i, P.X i j * (P.df.rawHess P.sw P.y s0.Xw i * dlin P s0 s.w s.b i) := by
      unfold pastGrad
      rw [dirCtx_g, dirCtx_h]
      congr 1
      exact Finset.sum_congr rfl (fun i _ => by rw [hinv.buf i]; rfl)
    have hp : ProxOptimal P j (1 / (P.dirCtx s0).L j) := by
      rw [dirCtx_L] at hL0 ⊢; exact hprox hL0
    have := coord_model_descent P s0 s.w s.b j _ _ hLpos hLe hpg hp hg
    rw [hnew]
    exact this

/-- the same with the C07 theorems plugged in: L1, WeightedL1, L1_plus_L2, MCP / WeightedMCP
    inside their range (`1 / lipschitz_ws[idx] < γ`, resp. `wt / lipschitz_ws[idx] < γ`),
    IndicatorBox, PositiveConstraint -/
theorem dir_step_model_descent_of_admissible (P : CDProb ℝ n p) (s0 : CDState ℝ n p)
    (ws : List (Fin p)) (s : DirState ℝ n p) (j : Fin p) (hinv : DirInv P s0 ws s)
    (hh : ∀ i, 0 ≤ P.df.rawHess P.sw P.y s0.Xw i)
    (hpen : (∃ a pos, P.pen = .l1 a pos) ∨ (∃ a pos, P.pen = .wl1 a pos) ∨
            (∃ a r pos, P.pen = .l1l2 a r pos) ∨ (∃ a g pos, P.pen = .mcp a g pos) ∨
            (∃ a g pos, P.pen = .wmcp a g pos) ∨ (∃ a, P.pen = .box a) ∨ P.pen = .pos)
    (hadm : P.hessLips s0.Xw j ≠ 0 → Admissible P.pen (P.wts j) (1 / P.hessLips s0.Xw j)) :
    Ext.le (qState P s0 (P.dirStep (P.dirCtx s0) s j)) (qState P s0 s) = true := by
  by_cases h0 : P.hessLips s0.Xw j = 0
  · rw [dirStep_skip P _ s j (by rw [dirCtx_L]; exact h0)]; exact CDB.le_refl' _
  · have hA := hadm h0
    refine dir_step_model_descent P s0 ws s j hinv hh
      (fun _ => proxOptimal_of_admissible P j _ hpen hA) ?_
    intro a g pos hp
    rcases hp with hp | hp <;> rw [hp] at hA <;> exact hA.2.2.2.1

/-- **(b), intercept** the intercept step does not increase the model when `0 < Σ raw_hess`
    (the only case in which the step is taken, see (d)) -/
theorem dir_intercept_model_descent (P : CDProb ℝ n p) (s0 : CDState ℝ n p) (ws : List (Fin p))
    (s : DirState ℝ n p) (hinv : DirInv P s0 ws s)
    (hpos : 0 < ∑ i, P.df.rawHess P.sw P.y s0.Xw i) :
    Ext.le (qState P s0 (CDProb.dirInterceptStep (P.dirCtx s0) s)) (qState P s0 s) = true := by
  have hLb : (P.dirCtx s0).Lb ≠ 0 := by rw [dirCtx_Lb]; exact hpos.ne'
  rw [dirInterceptStep_eq, intNew, if_neg hLb]
  have hpg : pastGradInt (P.dirCtx s0) s = (∑ i, P.df.rawGrad P.sw P.y s0.Xw i)
      + ∑ i, P.df.rawHess P.sw P.y s0.Xw i * dlin P s0 s.w s.b i := by
    unfold pastGradInt
    rw [dirCtx_gb, dirCtx_h]
    congr 1
    exact Finset.sum_congr rfl (fun i _ => by rw [hinv.buf i]; rfl)
  exact int_model_descent P s0 s.w s.b _ _ (by rw [dirCtx_Lb]; exact hpos) (dirCtx_Lb P s0) hpg

/-- hypotheses under which every move of the inner loop on `ws` is a descent move for the model -/
structure ModelOK (P : CDProb ℝ n p) (s0 : CDState ℝ n p) (ws : List (Fin p)) : Prop where
  hess : ∀ i, 0 ≤ P.df.rawHess P.sw P.y s0.Xw i
  prox : ∀ j ∈ ws, P.hessLips s0.Xw j ≠ 0 → ProxOptimal P j (1 / P.hessLips s0.Xw j)
  gam : ∀ a g pos, P.pen = .mcp a g pos ∨ P.pen = .wmcp a g pos → 0 < g
  int : P.fitInt = true → 0 < ∑ i, P.df.rawHess P.sw P.y s0.Xw i

/-- `ModelOK` from the C07 theorems: L1, WeightedL1, L1_plus_L2, MCP / WeightedMCP inside their
    range, IndicatorBox, PositiveConstraint -/
theorem modelOK_of_admissible (P : CDProb ℝ n p) (s0 : CDState ℝ n p) (ws : List (Fin p))
    (hh : ∀ i, 0 ≤ P.df.rawHess P.sw P.y s0.Xw i)
    (hpen : (∃ a pos, P.pen = .l1 a pos) ∨ (∃ a pos, P.pen = .wl1 a pos) ∨
            (∃ a r pos, P.pen = .l1l2 a r pos) ∨ (∃ a g pos, P.pen = .mcp a g pos) ∨
            (∃ a g pos, P.pen = .wmcp a g pos) ∨ (∃ a, P.pen = .box a) ∨ P.pen = .pos)
    (hadm : ∀ j ∈ ws, P.hessLips s0.Xw j ≠ 0 →
      Admissible P.pen (P.wts j) (1 / P.hessLips s0.Xw j))
    (hgam : ∀ a g pos, P.pen = .mcp a g pos ∨ P.pen = .wmcp a g pos → 0 < g)
    (hint : P.fitInt = true → 0 < ∑ i, P.df.rawHess P.sw P.y s0.Xw i) : ModelOK P s0 ws :=
  ⟨hh, fun j hj h0 => proxOptimal_of_admissible P j _ hpen (hadm j hj h0), hgam, hint⟩

theorem foldl_model_descent (P : CDProb ℝ n p) (s0 : CDState ℝ n p) (ws : List (Fin p))
    (hok : ModelOK P s0 ws) (l : List (Fin p)) (hl : ∀ j ∈ l, j ∈ ws) (s : DirState ℝ n p)
    (hinv : DirInv P s0 ws s) :
    Ext.le (qState P s0 (l.foldl (P.dirStep (P.dirCtx s0)) s)) (qState P s0 s) = true := by
  induction l generalizing s with
  | nil => exact CDB.le_refl' _
  | cons j l ih =>
    rw [List.foldl_cons]
    have hj := hl j List.mem_cons_self
    exact Ext_le_trans _ _ _
      (ih (fun k hk => hl k (List.mem_cons_of_mem _ hk)) _ (dirStep_inv P _ s0 ws s j hj hinv))
      (dir_step_model_descent P s0 ws s j hinv hok.hess (hok.prox j hj) hok.gam)

theorem dirEpoch_model_descent (P : CDProb ℝ n p) (s0 : CDState ℝ n p) (ws : List (Fin p))
    (hok : ModelOK P s0 ws) (s : DirState ℝ n p) (hinv : DirInv P s0 ws s) :
    Ext.le (qState P s0 (P.dirEpoch (P.dirCtx s0) ws s)) (qState P s0 s) = true := by
  unfold CDProb.dirEpoch
  have h1 := foldl_model_descent P s0 ws hok ws (fun _ hj => hj) s hinv
  have hi := foldl_inv P (P.dirCtx s0) s0 ws ws (fun _ hj => hj) s hinv
  dsimp only
  split_ifs with hfi
  · exact Ext_le_trans _ _ _ (dir_intercept_model_descent P s0 ws _ hi (hok.int hfi)) h1
  · exact h1

theorem dirLoop_model_descent (P : CDProb ℝ n p) (s0 : CDState ℝ n p) (ws : List (Fin p))
    (hok : ModelOK P s0 ws) (k : Nat) (s : DirState ℝ n p) (hinv : DirInv P s0 ws s) :
    Ext.le (qState P s0 (P.dirLoop (P.dirCtx s0) ws k s)) (qState P s0 s) = true := by
  induction k generalizing s with
  | zero => exact CDB.le_refl' _
  | succ k ih =>
    exact Ext_le_trans _ _ _ (ih _ (dirEpoch_inv P _ s0 ws s hinv))
      (dirEpoch_model_descent P s0 ws hok s hinv)

theorem qState_init (P : CDProb ℝ n p) (s0 : CDState ℝ n p) :
    qState P s0 (CDProb.dirInit s0) = P.pen.value P.wts s0.w := by
  unfold qState qModel
  have : qSmooth P s0 (dlin P s0 (CDProb.dirInit s0).w (CDProb.dirInit s0).b) = 0 := by
    simp [qSmooth, dlin, CDProb.dirInit]
  rw [this]
  show Ext.add (.fin 0) (P.pen.value P.wts s0.w) = _
  cases P.pen.value P.wts s0.w with
  | fin a => simp [Ext.add]
  | inf => rfl

/-- **(b), whole function**: whatever the number of epochs performed, the trial point
    `w_epoch + Δ` returned by `_descent_direction` has a model value `Q(Δ) ≤ Q(0) = penalty(w_epoch)`:
    the direction is a descent direction for the quadratic model -/
theorem dir_loop_model_descent (P : CDProb ℝ n p) (s0 : CDState ℝ n p) (ws : List (Fin p))
    (k : Nat) (hok : ModelOK P s0 ws) :
    Ext.le (qState P s0 (P.dirLoop (P.dirCtx s0) ws k (CDProb.dirInit s0)))
      (P.pen.value P.wts s0.w) = true := by
  have := dirLoop_model_descent P s0 ws hok k _ (init_inv P s0 ws)
  rwa [qState_init] at this

/-! ### (c) zero columns — and the other features the test `lipschitz_ws[idx] == 0` skips -/

theorem dirStep_w_fixed (P : CDProb ℝ n p) (c : DirCtx ℝ n p) (s : DirState ℝ n p) (k j : Fin p)
    (h : k ≠ j ∨ c.L j = 0) : (P.dirStep c s k).w j = s.w j := by
  by_cases hk : k = j
  · subst hk
    rcases h with h | h
    · exact absurd rfl h
    · rw [dirStep_skip P c s k h]
  · rw [dirStep_eq]
    simp only [moveCoord]
    rw [if_neg (fun e => hk e.symm)]

theorem foldl_w_fixed (P : CDProb ℝ n p) (c : DirCtx ℝ n p) (j : Fin p) (l : List (Fin p))
    (h : j ∉ l ∨ c.L j = 0) (s : DirState ℝ n p) : (l.foldl (P.dirStep c) s).w j = s.w j := by
  induction l generalizing s with
  | nil => rfl
  | cons k l ih =>
    rw [List.foldl_cons]
    have hk : k ≠ j ∨ c.L j = 0 := by
      rcases h with h | h
      · exact Or.inl (fun e => h (e ▸ List.mem_cons_self))
      · exact Or.inr h
    have hl : j ∉ l ∨ c.L j = 0 := by
      rcases h with h | h
      · exact Or.inl (fun e => h (List.mem_cons_of_mem _ e))
      · exact Or.inr h
    rw [ih hl, dirStep_w_fixed P c s k j hk]

theorem dirLoop_w_fixed (P : CDProb ℝ n p) (c : DirCtx ℝ n p) (ws : List (Fin p)) (j : Fin p)
    (h : j ∉ ws ∨ c.L j = 0) (k : Nat) (s : DirState ℝ n p) :
    (P.dirLoop c ws k s).w j = s.w j := by
  induction k generalizing s with
  | zero => rfl
  | succ k ih =>
    show (P.dirLoop c ws k (P.dirEpoch c ws s)).w j = s.w j
    rw [ih]
    unfold CDProb.dirEpoch
    dsimp only
    split_ifs
    · rw [dirInterceptStep_eq]; exact foldl_w_fixed P c j ws h s
    · exact foldl_w_fixed P c j ws h s

/-- a feature whose constant is `0` is skipped for good: its trial coefficient never moves, the
    direction has a zero entry there -/
theorem dir_skipped_feature (P : CDProb ℝ n p) (s0 : CDState ℝ n p) (ws : List (Fin p)) (k : Nat)
    (j : Fin p) (h0 : P.hessLips s0.Xw j = 0) : (P.descentDirection s0 ws k).dw j = 0 := by
  simp only [CDProb.descentDirection, CDProb.direction, mat_eq]
  rw [dirLoop_w_fixed P _ ws j (Or.inr (by rw [dirCtx_L]; exact h0))]
  simp [CDProb.dirInit]

/-- **(c)** a zero column of `X` has `lipschitz_ws[idx] = 0`, its loop body is skipped in every
    state, and its entry of the returned direction is `0` -/
theorem dir_zero_column (P : CDProb ℝ n p) (s0 : CDState ℝ n p) (ws : List (Fin p)) (k : Nat)
    (j : Fin p) (hcol : ∀ i, P.X i j = 0) :
    P.hessLips s0.Xw j = 0 ∧ (∀ s, P.dirStep (P.dirCtx s0) s j = s) ∧
      (P.descentDirection s0 ws k).dw j = 0 := by
  have h0 : P.hessLips s0.Xw j = 0 := by
    rw [hessLips_eq]
    exact Finset.sum_eq_zero (fun i _ => by rw [hcol i]; ring)
  exact ⟨h0, fun s => dirStep_skip P _ s j (by rw [dirCtx_L]; exact h0),
    dir_skipped_feature P s0 ws k j h0⟩

/-- with strictly positive Hessian weights the test is exactly "the column is zero" (the code's
    comment `# skip when X[:, j] == 0`) -/
theorem hessLips_eq_zero_iff (P : CDProb ℝ n p) (Xw : Fin n → ℝ) (j : Fin p)
    (hh : ∀ i, 0 < P.df.rawHess P.sw P.y Xw i) :
    P.hessLips Xw j = 0 ↔ ∀ i, P.X i j = 0 := by
  rw [hessLips_eq]
  constructor
  · intro h i
    have hz := (Finset.sum_eq_zero_iff_of_nonneg
      (fun i _ => mul_nonneg (hh i).le (mul_self_nonneg (P.X i j)))).1 h i (Finset.mem_univ _)
    rcases mul_eq_zero.1 hz with h1 | h1
    · exact absurd h1 (hh i).ne'
    · exact mul_self_eq_zero.1 h1
  · intro h
    exact Finset.sum_eq_zero (fun i _ => by rw [h i]; ring)

/-! ### (d) the intercept update when `sum(raw_hess) = 0` (guarded since the repair) -/

/-- when `lipschitz_intercept = 0` the intercept step is the identity **whatever the intercept
    gradient is** — by the guard `if lipschitz_intercept != 0:` of the code (since the repair; it
    holds for the `Float` instance as well, see the `#guard`s below), not by Lean's `x / 0 = 0`.
    Before the repair the code evaluated `past_grads_intercept / 0.0` (`ZeroDivisionError` under
    numba's default error model).  Theorem (b) is stated under `0 < Σ raw_hess`: the only case in
    which the step moves. -/
theorem intercept_step_div_zero (c : DirCtx ℝ n p) (s : DirState ℝ n p) (h0 : c.Lb = 0) :
    CDProb.dirInterceptStep c s = s := by
  rw [dirInterceptStep_eq, intNew, if_pos h0, moveInt_self]

/-- on the inputs the datafits accept — positive sample weights, `n ≥ 1`, `y > 0` for Gamma —
    the divisor is positive **over ℝ** for every datafit of the model: the guard can only
    fire through floating-point underflow of `exp` (Poisson: `Xw < -745`; Gamma: `Xw > 745 + log y`;
    Logistic: `|Xw| > 745`), or on inputs that the solver does not validate
    (`ProxNewton.solve` never calls `datafit.initialize`, which holds Gamma's `y > 0` check) -/
theorem intercept_constant_pos (P : CDProb ℝ n p) (s0 : CDState ℝ n p) (hn : 0 < n)
    (hsw : ∀ i, 0 < P.sw i) (hN : 0 < P.df.normaliser P.sw)
    (hgamma : P.df = .gamma → ∀ i, 0 < P.y i) : 0 < (P.dirCtx s0).Lb := by
  rw [dirCtx_Lb]
  exact Finset.sum_pos (fun i _ => rawHess_pos P.df P.sw P.y s0.Xw hsw hN hgamma i)
    ⟨⟨0, hn⟩, Finset.mem_univ _⟩

/-- Gamma datafit, one sample `x = 1`, target `y = 0` (never validated on the `ProxNewton` path),
    `w = 0`, intercept `0` -/
noncomputable def wP : CDProb ℝ 1 1 :=
  { X := fun _ _ => 1, y := fun _ => 0, sw := fun _ => 1, df := .gamma,
    pen := .l1 (1 / 2) false, wts := fun _ => 1, fitInt := true }
def wS : CDState ℝ 1 1 := { w := fun _ => 0, b := 0, Xw := fun _ => 0 }

theorem wP_rawHess (i : Fin 1) : wP.df.rawHess wP.sw wP.y wS.Xw i = 0 := by
  simp [wP, DF.rawHess, DF.d2loss1]

theorem wP_rawGrad (i : Fin 1) : wP.df.rawGrad wP.sw wP.y wS.Xw i = 1 := by
  simp [wP, DF.rawGrad, DF.dloss1, DF.normaliser]

/-- **(d), documented observation**: a consistent epoch point with `fit_intercept`, non-negative
    data, where `lipschitz_intercept = Σ raw_hess = 0` while the intercept gradient is `1 ≠ 0` (so
    the point is not stationary in the intercept).  Before the repair the code evaluated
    `1.0 / 0.0` here; now the intercept step is skipped, every feature is skipped as well
    (`lipschitz_ws = 0`), and `_descent_direction` returns the zero direction for every working set
    and every number of epochs — the prox-Newton iteration cannot move although the intercept is
    not optimal (the solver ends with its non-convergence warning instead of an exception). -/
theorem intercept_step_skipped_when_flat :
    wP.fitInt = true ∧ Consistent wP wS ∧ (wP.dirCtx wS).Lb = 0 ∧ (wP.dirCtx wS).gb = 1 ∧
      pastGradInt (wP.dirCtx wS) (CDProb.dirInit wS) = 1 ∧
      ∀ ws k, (wP.descentDirection wS ws k).db = 0 ∧ ∀ j, (wP.descentDirection wS ws k).dw j = 0 := by
  have hLb : (wP.dirCtx wS).Lb = 0 := by
    rw [dirCtx_Lb]; exact Finset.sum_eq_zero (fun i _ => wP_rawHess i)
  have hgb : (wP.dirCtx wS).gb = 1 := by
    rw [dirCtx_gb]; simp [wP_rawGrad]
  refine ⟨rfl, fun i => by simp [wS], hLb, hgb, ?_, fun ws k => ?_⟩
  · unfold pastGradInt; rw [hgb]; simp [CDProb.dirInit]
  · -- every feature is skipped (`hessLips = 0`) and the intercept step is the identity
    have hL : ∀ j, wP.hessLips wS.Xw j = 0 := fun j => by
      rw [hessLips_eq]; exact Finset.sum_eq_zero (fun i _ => by rw [wP_rawHess i]; ring)
    have hstep : ∀ s j, wP.dirStep (wP.dirCtx wS) s j = s := fun s j =>
      dirStep_skip wP _ s j (by rw [dirCtx_L]; exact hL j)
    have hfold : ∀ (l : List (Fin 1)) s, l.foldl (wP.dirStep (wP.dirCtx wS)) s = s := by
      intro l
      induction l with
      | nil => intro s; rfl
      | cons j l ih => intro s; rw [List.foldl_cons, hstep, ih]
    have hep : ∀ s, wP.dirEpoch (wP.dirCtx wS) ws s = s := fun s => by
      unfold CDProb.dirEpoch
      simp only [hfold, intercept_step_div_zero _ _ hLb, ite_self]
    have hloop : ∀ m s, wP.dirLoop (wP.dirCtx wS) ws m s = s := by
      intro m
      induction m with
      | zero => intro s; rfl
      | succ m ih => intro s; show wP.dirLoop _ ws m (wP.dirEpoch _ ws s) = s; rw [hep, ih]
    simp [CDProb.descentDirection, CDProb.direction, hloop, CDProb.dirInit]

/-- the skip test is not "the column is zero": in the witness the column is `1`, its constant is
    `0`, the feature is skipped although its gradient is `1 > alpha = 1/2` -/
theorem dir_skip_nonzero_column :
    wP.X 0 0 ≠ 0 ∧ wP.hessLips wS.Xw 0 = 0 ∧ (wP.dirCtx wS).g 0 = 1 ∧
      ∀ s, wP.dirStep (wP.dirCtx wS) s 0 = s := by
  have hL : wP.hessLips wS.Xw 0 = 0 := by
    rw [hessLips_eq]; exact Finset.sum_eq_zero (fun i _ => by rw [wP_rawHess i]; ring)
  refine ⟨by simp [wP], hL, ?_, fun s => dirStep_skip wP _ s 0 (by rw [dirCtx_L]; exact hL)⟩
  rw [dirCtx_g]; simp [wP_rawGrad]; simp [wP]

/-! ### the guard on the `Float` instance of the model

  Poisson datafit, `X = [[1], [2]]`, `y = [1, 2]`, `w = [-800]`, intercept `0`:
  `raw_hess = exp(Xw) / n` underflows to exactly `0.0` in binary64 while the intercept gradient
  is `-1.5`.  Before the repair the IEEE reading of the model returned an infinite intercept step
  and numba raised `ZeroDivisionError: division by zero` at
  `w_ws[-1] -= past_grads_intercept / lipschitz_intercept` (observed on the real library with
  `ProxNewton(fit_intercept=True).solve(X, y, Poisson(), L1(0.1), w_init, Xw_init)`; likewise
  `Gamma()` with `y = 0`, and with `y > 0` and intercept `800`).  With the guard the direction is
  finite — and zero: the iteration does not move. -/

def fP : CDProb Float 2 1 :=
  { X := fun i _ => if i.1 = 0 then 1 else 2, y := fun i => if i.1 = 0 then 1 else 2,
    sw := fun _ => 1, df := .poisson, pen := .l1 0.1 false, wts := fun _ => 1, fitInt := true }
def fS : CDState Float 2 1 :=
  { w := fun _ => -800, b := 0, Xw := fun i => if i.1 = 0 then -800 else -1600 }

#guard (fP.dirCtx fS).Lb == 0 && (fP.dirCtx fS).gb == -1.5
#guard (fP.descentDirection fS [0] 1).db == 0 && ((fP.descentDirection fS [0] 1).Xd 0).isFinite &&
  ((fP.descentDirection fS [0] 1).Xd 1).isFinite && ((fP.descentDirection fS [0] 1).dw 0).isFinite
#guard (fP.descentDirection fS [0] 20).db == 0 && (fP.descentDirection fS [0] 20).Xd 0 == 0 &&
  (fP.descentDirection fS [0] 20).dw 0 == 0
#guard ((fP.pnIteration 20 1 fS [0]).Xw 0).isFinite && (fP.pnIteration 20 1 fS [0]).b == 0

/-! ### non-vacuity -/

/-- `exP` with an intercept -/
noncomputable def exPI (y a : ℝ) : CDProb ℝ 1 1 :=
  { X := fun _ _ => 1, y := fun _ => y, sw := fun _ => 1, df := .quadratic,
    pen := .l1 a false, wts := fun _ => 1, fitInt := true }

/-- the function computes something: `½ (w − 2)² + ½ |w|` from `w = 0`, one epoch: the direction
    is the full Newton step to the minimiser `3/2`, with its buffer -/
example : ((exP 2 (1 / 2)).descentDirection exS [0] 1).dw 0 = 3 / 2 ∧
    ((exP 2 (1 / 2)).descentDirection exS [0] 1).Xd 0 = 3 / 2 ∧
    ((exP 2 (1 / 2)).descentDirection exS [0] 1).db = 0 := by
  simp [CDProb.descentDirection, maxCdIter, CDProb.dirLoop, CDProb.dirEpoch, CDProb.direction,
    dirStep_eq, moveCoord, dirNew, pastGrad, dirCtx_L, hessLips_eq, dirCtx_g, CDProb.dirInit, exP,
    exS, DF.rawHess, DF.rawGrad, DF.d2loss1, DF.dloss1, DF.normaliser, SepPen.prox1, ST]
  norm_num

/-- with the intercept: coordinate step to `3/2`, then intercept step `-(−2 + 3/2)/1 = 1/2` -/
example : ((exPI 2 (1 / 2)).descentDirection exS [0] 1).dw 0 = 3 / 2 ∧
    ((exPI 2 (1 / 2)).descentDirection exS [0] 1).db = 1 / 2 ∧
    ((exPI 2 (1 / 2)).descentDirection exS [0] 1).Xd 0 = 2 := by
  simp [CDProb.descentDirection, maxCdIter, CDProb.dirLoop, CDProb.dirEpoch, CDProb.direction,
    dirStep_eq, dirInterceptStep_eq, intNew, moveCoord, moveInt, dirNew, pastGrad, pastGradInt, dirCtx_L,
    dirCtx_Lb, dirCtx_gb, hessLips_eq, dirCtx_g, CDProb.dirInit, exPI, exS, DF.rawHess, DF.rawGrad,
    DF.d2loss1, DF.dloss1, DF.normaliser, SepPen.prox1, ST]
  norm_num

/-- the hypotheses of `dir_loop_model_descent` hold together, with an intercept -/
theorem exPI_modelOK (y a : ℝ) (ha : 0 ≤ a) : ModelOK (exPI y a) exS [0] := by
  have hh : ∀ i, (exPI y a).df.rawHess (exPI y a).sw (exPI y a).y exS.Xw i = 1 := fun i => by
    simp [exPI, DF.rawHess, DF.d2loss1, DF.normaliser]
  have hL : ∀ j, (exPI y a).hessLips exS.Xw j = 1 := fun j => by
    rw [hessLips_eq]; simp [hh]; simp [exPI]
  refine ⟨fun i => by rw [hh i]; norm_num, fun j _ _ => ?_, fun a' g pos h => ?_, fun _ => ?_⟩
  · rw [hL j]
    refine proxOptimal_of_admissible _ j _ (Or.inl ⟨a, false, rfl⟩) ?_
    exact ⟨by norm_num, by simp [exPI], ha⟩
  · rcases h with h | h <;> simp [exPI] at h
  · simp [hh]

example : Ext.le (qState (exPI 2 (1 / 2)) exS
      ((exPI 2 (1 / 2)).dirLoop ((exPI 2 (1 / 2)).dirCtx exS) [0] 20 (CDProb.dirInit exS)))
    ((exPI 2 (1 / 2)).pen.value (exPI 2 (1 / 2)).wts exS.w) = true :=
  dir_loop_model_descent _ exS [0] 20 (exPI_modelOK 2 (1 / 2) (by norm_num))

/-- the composed corollaries apply (all hypotheses of `pn_iteration_never_ascends` hold) -/
example (y a : ℝ) (k : Nat) :
    Consistent (exP y a) ((exP y a).pnIteration 20 k exS [0]) ∧
    Ext.le ((exP y a).objective ((exP y a).pnIteration 20 k exS [0])) ((exP y a).objective exS)
      = true := by
  refine ⟨pn_iteration_consistent 20 k (exP y a) exS [0] (fun i => by simp [exS]),
    pn_iteration_never_ascends 19 k (exP y a) exS [0] 0 ?_ ?_ ?_ ?_ ?_ ?_⟩ <;>
    simp [exP, exS, SepPen.value, esum, SepPen.pen1, Ext.add, sabs_eq,
      Fin.foldl_succ, Fin.foldl_zero, SepPen.positive, DF.normaliser, DF.lin]

end Skglm.PNDirP
