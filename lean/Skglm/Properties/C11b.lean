import Skglm.Spec.DocObjectives2
import Skglm.Proofs.CDAuxB
import Skglm.Proofs.BCD
import Skglm.Proofs.MultiTask
import Skglm.Proofs.Datafits
import Skglm.Properties.Cox
/-
  C11b — the four estimators that C11 does not cover (`GroupLasso`, `MultiTaskLasso`,
  `CoxEstimator`, `SqrtLasso`) plumb their arguments into the documented problem: the objective the
  solver evaluates on the problem each `fit` builds (`Skglm/Model/Estimators2.lean`) is the objective
  of the class docstring (`Skglm/Spec/DocObjectives2.lean`), for all constructor arguments, all data
  and all coefficient values; together with what `grp_converter` returns for each accepted form of
  `groups`, and the places where code and documentation part.
-/
namespace Skglm.C11b
open Skglm Skglm.Spec Skglm.Proofs Skglm.Proofs.CDB Skglm.CoxP Skglm.Cox
variable {n p T : Nat}

/-! ### separable penalty values -/

theorem l1_value (a : ℝ) (w : Fin p → ℝ) :
    (SepPen.l1 a false).value (fun _ => 1) w = .fin (a * ∑ j, |w j|) := by
  unfold SepPen.value
  rw [esum_fin _ (fun j => a * |w j|) (fun j => by
    simp [SepPen.pen1, SepPen.positive, sabs_eq]), Finset.mul_sum]

theorem l1l2_value (a r : ℝ) (w : Fin p → ℝ) :
    (SepPen.l1l2 a r false).value (fun _ => 1) w
      = .fin (r * a * ∑ j, |w j| + (1 - r) * a / 2 * ∑ j, w j ^ 2) := by
  unfold SepPen.value
  rw [esum_fin _ (fun j => r * a * |w j| + (1 - r) * a / 2 * (w j) ^ 2) (fun j => by
    simp [SepPen.pen1, SepPen.positive, sabs_eq, sq]), Finset.sum_add_distrib, Finset.mul_sum,
    Finset.mul_sum]

theorem matVec_eq (X : Fin n → Fin p → ℝ) (w : Fin p → ℝ) :
    matVec X w = fun i => ∑ j, X i j * w j := by
  funext i; simp only [matVec, vsum_eq]

/-! ### `grp_converter` -/

/-- consecutive slices of `idx` of the given sizes, starting at position `a` -/
def blocksFrom (idx : List (Fin p)) (a : Nat) : List Nat → List (List (Fin p))
  | [] => []
  | s :: l => (idx.drop a).take s :: blocksFrom idx (a + s) l

theorem cumsumFrom_getD_zero (a : Nat) (l : List Nat) : (cumsumFrom a l).getD 0 0 = a := by
  cases l <;> rfl

theorem cumsumFrom_length (a : Nat) (l : List Nat) : (cumsumFrom a l).length = l.length + 1 := by
  induction l generalizing a with
  | nil => rfl
  | cons x l ih => simp [cumsumFrom, ih]

theorem ptrDiff_cumsumFrom (a : Nat) (l : List Nat) : ptrDiff (cumsumFrom a l) = l := by
  induction l generalizing a with
  | nil => rfl
  | cons x l ih =>
    have h := ih (a + x)
    cases l with
    | nil => simp [cumsumFrom, ptrDiff]
    | cons x' l' =>
      simp only [cumsumFrom, ptrDiff] at h ⊢
      rw [h]; simp

theorem natSum_eq (l : List Nat) : natSum l = l.sum := by
  induction l with
  | nil => rfl
  | cons x l ih => simp [natSum, List.foldr] at ih ⊢; omega

theorem slices_cumsumFrom (idx : List (Fin p)) (a : Nat) (l : List Nat) :
    (List.range l.length).map (grpSlice idx (cumsumFrom a l)) = blocksFrom idx a l := by
  induction l generalizing a with
  | nil => rfl
  | cons x l ih =>
    rw [List.length_cons, List.range_succ_eq_map, List.map_cons, List.map_map, blocksFrom, ← ih (a + x)]
    congr 1
    · simp only [grpSlice, cumsumFrom, List.getD_cons_zero, List.getD_cons_succ, cumsumFrom_getD_zero]
      congr 1; omega

theorem groupsOf_cumsumFrom (idx : List (Fin p)) (a : Nat) (l : List Nat) :
    groupsOf (idx, cumsumFrom a l) = blocksFrom idx a l := by
  unfold groupsOf
  simp only [cumsumFrom_length, Nat.add_sub_cancel]
  exact slices_cumsumFrom idx a l

theorem blocksFrom_flatten (pre : List (Fin p)) (L : List (List (Fin p))) :
    blocksFrom (pre ++ L.flatten) pre.length (L.map List.length) = L := by
  induction L generalizing pre with
  | nil => rfl
  | cons x L ih =>
    simp only [List.map_cons, blocksFrom, List.flatten_cons]
    rw [List.drop_left, List.take_left, ← List.append_assoc, ← List.length_append, ih]

theorem arange_mul_eq_cumsum (k m a : Nat) :
    (List.range (m + 1)).map (fun g => a + k * g) = cumsumFrom a (List.replicate m k) := by
  induction m generalizing a with
  | zero => simp [cumsumFrom]
  | succ m ih =>
    rw [List.range_succ_eq_map, List.map_cons, List.map_map, List.replicate_succ, cumsumFrom,
      ← ih (a + k)]
    congr 1
    refine List.map_congr_left (fun g _ => ?_)
    simp only [Function.comp, Nat.succ_eq_add_one]
    ring

theorem blocksFrom_length (idx : List (Fin p)) (a : Nat) (l : List Nat) :
    (blocksFrom idx a l).length = l.length := by
  induction l generalizing a with
  | nil => rfl
  | cons x l ih => simp [blocksFrom, ih]

theorem blocksFrom_getElem? (idx : List (Fin p)) (a : Nat) (l : List Nat) (g : Nat) :
    (blocksFrom idx a l)[g]? = (l[g]?).map (fun s => (idx.drop (a + (l.take g).sum)).take s) := by
  induction l generalizing a g with
  | nil => simp [blocksFrom]
  | cons x l ih =>
    cases g with
    | zero => simp [blocksFrom]
    | succ g =>
      simp only [blocksFrom, List.getElem?_cons_succ, ih, List.take_succ_cons, List.sum_cons]
      congr 1
      funext s
      congr 2
      omega

theorem mem_finRange_slice (a s : Nat) (j : Fin p) :
    j ∈ ((List.finRange p).drop a).take s ↔ a ≤ j.val ∧ j.val < a + s := by
  rw [List.mem_iff_getElem]
  constructor
  · rintro ⟨i, hi, rfl⟩
    simp only [List.length_take, List.length_drop, List.length_finRange] at hi
    simp only [List.getElem_take, List.getElem_drop, List.getElem_finRange, Fin.cast_mk]
    omega
  · rintro ⟨h1, h2⟩
    refine ⟨j.val - a, ?_, ?_⟩
    · simp only [List.length_take, List.length_drop, List.length_finRange]
      have := j.2
      omega
    · simp only [List.getElem_take, List.getElem_drop, List.getElem_finRange, Fin.cast_mk]
      apply Fin.ext
      simp only
      omega

theorem nodup_finRange_slice (a s : Nat) : (((List.finRange p).drop a).take s).Nodup :=
  ((List.nodup_finRange p).sublist (List.drop_sublist _ _)).sublist (List.take_sublist _ _)

/-- `grp_converter` followed by the slicing every consumer does -/
def convGroups (groups : GroupsArg p) : Except GrpError (List (List (Fin p))) :=
  match grpConverter groups with
  | .ok c => .ok (groupsOf c)
  | .error e => .error e

/-- int `k`, `k ∣ n_features`: the consecutive blocks of `k` features -/
theorem grp_converter_size (k : Nat) (hk : 0 < k) (hd : k ∣ p) :
    convGroups (.size k : GroupsArg p)
      = .ok (blocksFrom (List.finRange p) 0 (List.replicate (p / k) k)) := by
  have h := arange_mul_eq_cumsum k (p / k) 0
  simp only [zero_add] at h
  simp only [convGroups, grpConverter, if_neg (Nat.pos_iff_ne_zero.1 hk),
    Nat.mod_eq_zero_of_dvd hd, ne_eq, not_true_eq_false, if_false, h, groupsOf_cumsumFrom]

/-- int `k` that does not divide `n_features`: `ValueError` (no shorter last group) -/
theorem grp_converter_size_not_multiple (k : Nat) (hk : 0 < k) (hd : ¬ k ∣ p) :
    convGroups (.size k : GroupsArg p) = .error .notMultiple := by
  have : p % k ≠ 0 := fun h => hd (Nat.dvd_of_mod_eq_zero h)
  simp only [convGroups, grpConverter, if_neg (Nat.pos_iff_ne_zero.1 hk), if_pos this]

/-- int `0`: `ZeroDivisionError` -/
theorem grp_converter_size_zero : convGroups (.size 0 : GroupsArg p) = .error .zeroDivision := by
  simp [convGroups, grpConverter]

/-- list of sizes: consecutive blocks of these sizes, clipped at `n_features` (no check) -/
theorem grp_converter_sizes (l : List Nat) (hl : l ≠ []) :
    convGroups (.sizes l : GroupsArg p) = .ok (blocksFrom (List.finRange p) 0 l) := by
  have : l.isEmpty = false := by cases l <;> simp_all
  simp only [convGroups, grpConverter, this, Bool.false_eq_true, if_false, groupsOf_cumsumFrom]

/-- list of index lists: the lists as given (order and repetitions included) -/
theorem grp_converter_lists (L : List (List (Fin p))) (hL : L ≠ []) :
    convGroups (.lists L) = .ok L := by
  have : L.isEmpty = false := by cases L <;> simp_all
  have h := blocksFrom_flatten [] L
  simp only [List.nil_append, List.length_nil] at h
  simp only [convGroups, grpConverter, this, Bool.false_eq_true, if_false, groupsOf_cumsumFrom, h]

/-- an empty list: `groups[0]` raises `IndexError` -/
theorem grp_converter_empty :
    convGroups (.sizes [] : GroupsArg p) = .error .emptyList ∧
    convGroups (.lists [] : GroupsArg p) = .error .emptyList := by
  simp [convGroups, grpConverter]

/-- member `j` of block number `g` of the int form: `g k ≤ j < (g + 1) k` -/
theorem grp_converter_size_mem (k g : Nat) (grp : List (Fin p))
    (h : (blocksFrom (List.finRange p) 0 (List.replicate (p / k) k))[g]? = some grp) :
    g < p / k ∧ grp.Nodup ∧ ∀ j : Fin p, j ∈ grp ↔ g * k ≤ j.val ∧ j.val < g * k + k := by
  rw [blocksFrom_getElem?] at h
  have hg : g < p / k := by
    by_contra hc
    rw [List.getElem?_eq_none (by simpa using Nat.le_of_not_lt hc)] at h
    simp at h
  rw [List.getElem?_replicate, if_pos hg, Option.map_some, Option.some.injEq] at h
  subst h
  refine ⟨hg, nodup_finRange_slice _ _, fun j => ?_⟩
  rw [mem_finRange_slice, List.take_replicate, List.sum_replicate, Nat.min_eq_left hg.le]
  simp only [smul_eq_mul, zero_add]

/-- member `j` of block number `g` of the list-of-sizes form -/
theorem grp_converter_sizes_mem (l : List Nat) (g : Nat) (grp : List (Fin p))
    (h : (blocksFrom (List.finRange p) 0 l)[g]? = some grp) :
    g < l.length ∧ grp.Nodup ∧
      ∀ j : Fin p, j ∈ grp ↔ (l.take g).sum ≤ j.val ∧ j.val < (l.take g).sum + l.getD g 0 := by
  rw [blocksFrom_getElem?] at h
  have hg : g < l.length := by
    by_contra hc
    rw [List.getElem?_eq_none (Nat.le_of_not_lt hc)] at h
    simp at h
  rw [List.getElem?_eq_getElem hg, Option.map_some, Option.some.injEq] at h
  subst h
  refine ⟨hg, nodup_finRange_slice _ _, fun j => ?_⟩
  rw [mem_finRange_slice, List.getD_eq_getElem?_getD, List.getElem?_eq_getElem hg]
  simp only [zero_add, Option.getD_some]


/-! ### `GroupLasso.fit` -/

/-- the `groups` arguments `GroupLasso.fit` goes through with -/
def Accepted (groups : GroupsArg p) : Prop :=
  match groups with
  | .size k => 0 < k ∧ k ∣ p
  | .sizes l => l ≠ [] ∧ l.sum = p
  | .lists L => L ≠ [] ∧ (L.map List.length).sum = p

/-- the groups it then builds -/
def builtGroups (groups : GroupsArg p) : List (List (Fin p)) :=
  match groups with
  | .size k => blocksFrom (List.finRange p) 0 (List.replicate (p / k) k)
  | .sizes l => blocksFrom (List.finRange p) 0 l
  | .lists L => L

/-- … and the problem -/
def builtProblem (a : GroupLassoArgs ℝ p) (X : Fin n → Fin p → ℝ) (y : Fin n → ℝ)
    (lips : List ℝ) : GrpProb ℝ n p :=
  { X := X, y := y, sw := fun _ => 1, df := .quadratic, pen := .wgl2 a.alpha a.positive,
    groups := builtGroups a.groups,
    wgs := match a.weights with
      | none => List.replicate (docNumGroups a.groups) 1
      | some ws => ws,
    wfs := fun _ => 1, lips := lips, fitInt := a.fitInt }

theorem groupLasso_fit_accepts (a : GroupLassoArgs ℝ p) (X : Fin n → Fin p → ℝ) (y : Fin n → ℝ)
    (lips : List ℝ) (h : Accepted a.groups) : a.fit X y lips = .ok (builtProblem a X y lips) := by
  obtain ⟨groups, alpha, weights, positive, fitInt⟩ := a
  cases groups with
  | size k =>
    obtain ⟨hk, hd⟩ := h
    have hc := arange_mul_eq_cumsum k (p / k) 0
    simp only [zero_add] at hc
    have hsum : p = natSum (List.replicate (p / k) k) := by
      rw [natSum_eq, List.sum_replicate, smul_eq_mul, Nat.div_mul_cancel hd]
    simp only [GroupLassoArgs.fit, grpConverter, if_neg (Nat.pos_iff_ne_zero.1 hk),
      Nat.mod_eq_zero_of_dvd hd, ne_eq, not_true_eq_false, if_false, hc, ptrDiff_cumsumFrom,
      groupsOf_cumsumFrom, builtProblem, builtGroups, docNumGroups]
    rw [if_neg (not_not.2 hsum)]
    cases weights <;> simp
  | sizes l =>
    obtain ⟨hl, hs⟩ := h
    have : l.isEmpty = false := by cases l <;> simp_all
    simp only [GroupLassoArgs.fit, grpConverter, this, Bool.false_eq_true, if_false,
      ptrDiff_cumsumFrom, groupsOf_cumsumFrom, builtProblem, builtGroups, docNumGroups, natSum_eq,
      hs, ne_eq, not_true_eq_false]
    cases weights <;> simp
  | lists L =>
    obtain ⟨hL, hs⟩ := h
    have : L.isEmpty = false := by cases L <;> simp_all
    have hb := blocksFrom_flatten [] L
    simp only [List.nil_append, List.length_nil] at hb
    simp only [GroupLassoArgs.fit, grpConverter, this, Bool.false_eq_true, if_false,
      ptrDiff_cumsumFrom, groupsOf_cumsumFrom, builtProblem, builtGroups, docNumGroups, natSum_eq,
      hs, ne_eq, not_true_eq_false, hb]
    cases weights with
    | none =>
      simp only [List.map_map]
      rw [show ((fun _ : Nat => (1 : ℝ)) ∘ List.length : List (Fin p) → ℝ) = fun _ => 1 from rfl,
        List.map_const']
    | some ws => rfl

theorem groupLasso_fit_rejects (a : GroupLassoArgs ℝ p) (X : Fin n → Fin p → ℝ) (y : Fin n → ℝ)
    (lips : List ℝ) (h : ¬ Accepted a.groups) : ∃ e, a.fit X y lips = .error e := by
  obtain ⟨groups, alpha, weights, positive, fitInt⟩ := a
  cases groups with
  | size k =>
    by_cases hk : k = 0
    · exact ⟨.zeroDivision, by simp [GroupLassoArgs.fit, grpConverter, hk]⟩
    · have hd : p % k ≠ 0 := fun e => h ⟨Nat.pos_of_ne_zero hk, Nat.dvd_of_mod_eq_zero e⟩
      exact ⟨.notMultiple, by simp [GroupLassoArgs.fit, grpConverter, hk, hd]⟩
  | sizes l =>
    by_cases hl : l = []
    · exact ⟨.emptyList, by simp [GroupLassoArgs.fit, grpConverter, hl]⟩
    · have hs : ¬ p = l.sum := fun e => h ⟨hl, e.symm⟩
      have : l.isEmpty = false := by cases l <;> simp_all
      exact ⟨.countMismatch, by
        simp [GroupLassoArgs.fit, grpConverter, this, ptrDiff_cumsumFrom, natSum_eq, hs]⟩
  | lists L =>
    by_cases hL : L = []
    · exact ⟨.emptyList, by simp [GroupLassoArgs.fit, grpConverter, hL]⟩
    · have hs : ¬ p = (L.map List.length).sum := fun e => h ⟨hL, e.symm⟩
      have : L.isEmpty = false := by cases L <;> simp_all
      exact ⟨.countMismatch, by
        simp [GroupLassoArgs.fit, grpConverter, this, ptrDiff_cumsumFrom, natSum_eq, hs]⟩


/-! ### the objective of the problem `GroupLasso.fit` builds -/

theorem wgl2_penBlk {k : Nat} (a wg : ℝ) (pos : Bool) (wf v : Fin k → ℝ)
    (h : pos = true → ∀ i, 0 ≤ v i) :
    (BlkPen.wgl2 a pos).penBlk wg wf v = .fin (a * wg * norm2 v) := by
  have hne := (BCD.penBlk_ne_inf_iff (BlkPen.wgl2 a pos) wg wf v).2 (fun a' e i => by
    simp only [BlkPen.wgl2.injEq] at e
    exact h e.2 i)
  unfold BlkPen.penBlk at hne ⊢
  simp only at hne ⊢
  split_ifs at hne ⊢ with hc
  · exact absurd rfl hne
  · rfl

theorem block_norm_eq (grp : List (Fin p)) (hnd : grp.Nodup) (w : Fin p → ℝ) (q : Fin p → Prop)
    [DecidablePred q] (hq : ∀ j, j ∈ grp ↔ q j) :
    norm2 (GrpProb.block w grp) = Real.sqrt (∑ j, if q j then w j ^ 2 else 0) := by
  rw [norm2_eq]
  congr 1
  have h1 : (∑ j, if q j then w j ^ 2 else 0) = ∑ j ∈ grp.toFinset, w j ^ 2 := by
    rw [← Finset.sum_filter]
    congr 1
    ext j
    simp [hq]
  rw [h1, List.sum_toFinset _ hnd, ← Fin.sum_univ_fun_getElem grp (fun j => w j ^ 2)]
  refine Finset.sum_congr rfl (fun i _ => ?_)
  simp only [GrpProb.block, List.get_eq_getElem]
  ring

/-- the groups built are the groups of the docstring (for explicit index lists: when no index is
    repeated inside a list) -/
theorem builtGroups_spec (groups : GroupsArg p)
    (hnd : ∀ L, groups = .lists L → ∀ grp ∈ L, grp.Nodup) :
    (builtGroups groups).length = docNumGroups groups ∧
    ∀ g grp, (builtGroups groups)[g]? = some grp →
      grp.Nodup ∧ ∀ j, j ∈ grp ↔ inDocGroup groups g j := by
  cases groups with
  | size k =>
    refine ⟨by simp [builtGroups, docNumGroups, blocksFrom_length], fun g grp h => ?_⟩
    obtain ⟨_, h2, h3⟩ := grp_converter_size_mem k g grp h
    exact ⟨h2, h3⟩
  | sizes l =>
    refine ⟨by simp [builtGroups, docNumGroups, blocksFrom_length], fun g grp h => ?_⟩
    obtain ⟨_, h2, h3⟩ := grp_converter_sizes_mem l g grp h
    exact ⟨h2, h3⟩
  | lists L =>
    refine ⟨rfl, fun g grp h => ⟨hnd L rfl grp (List.mem_of_getElem? h), fun j => ?_⟩⟩
    simp only [builtGroups] at h
    simp only [inDocGroup, List.getD_eq_getElem?_getD, h, Option.getD_some]

theorem builtWeights_spec (a : GroupLassoArgs ℝ p) (X : Fin n → Fin p → ℝ) (y : Fin n → ℝ)
    (lips : List ℝ) (g : Nat) (hg : g < docNumGroups a.groups) :
    (builtProblem a X y lips).wgs.getD g 0 = docGroupWeight a.weights g := by
  obtain ⟨groups, alpha, weights, positive, fitInt⟩ := a
  cases weights with
  | none =>
    simp only [builtProblem, docGroupWeight, List.getD_eq_getElem?_getD, List.getElem?_replicate,
      if_pos hg, Option.getD_some]
  | some ws => rfl

open Classical in
/-- **GroupLasso**: whenever `fit` goes through, the objective `GroupBCD` evaluates on the problem
    it built is the objective of the class docstring, at every consistent state whose coefficients
    satisfy the positivity constraint (when `positive=True`).  For `groups` given as index lists
    this needs that no list repeats an index. -/
theorem groupLasso_obj_eq_doc (a : GroupLassoArgs ℝ p) (X : Fin n → Fin p → ℝ) (y : Fin n → ℝ)
    (lips : List ℝ) (P : GrpProb ℝ n p) (hfit : a.fit X y lips = .ok P)
    (hnd : ∀ L, a.groups = .lists L → ∀ grp ∈ L, grp.Nodup)
    (s : CDState ℝ n p) (hc : BCD.GConsistent P s) (hpos : a.positive = true → ∀ j, 0 ≤ s.w j) :
    P.objective s = .fin (docGroupLasso a X y s.w s.b) := by
  have hacc : Accepted a.groups := by
    by_contra h
    obtain ⟨e, he⟩ := groupLasso_fit_rejects a X y lips h
    rw [he] at hfit
    cases hfit
  rw [groupLasso_fit_accepts a X y lips hacc, Except.ok.injEq] at hfit
  subst hfit
  obtain ⟨hlen, hgrp⟩ := builtGroups_spec a.groups hnd
  have hlen' : (builtProblem a X y lips).groups.length = docNumGroups a.groups := hlen
  unfold GrpProb.objective GrpProb.penValue
  rw [esum_fin _ (fun gi : Fin (builtProblem a X y lips).groups.length =>
      a.alpha * (docGroupWeight a.weights gi.1 * docGroupNorm a.groups s.w gi.1)) (fun gi => by
    have hget : (builtGroups a.groups)[gi.1]? = some ((builtProblem a X y lips).groups.get gi) :=
      List.getElem?_eq_getElem gi.2
    obtain ⟨h1, h2⟩ := hgrp _ _ hget
    unfold GrpProb.penTerm
    simp only
    rw [show (builtProblem a X y lips).pen = .wgl2 a.alpha a.positive from rfl,
      wgl2_penBlk a.alpha _ a.positive _ (GrpProb.block s.w _) (fun hp i => hpos hp _),
      builtWeights_spec a X y lips gi.1 (hlen' ▸ gi.2)]
    unfold docGroupNorm
    rw [block_norm_eq _ h1 s.w (inDocGroup a.groups gi.1) h2, mul_assoc])]
  rw [Fin.sum_univ_eq_sum_range (fun g => a.alpha * (docGroupWeight a.weights g
      * docGroupNorm a.groups s.w g)) (builtProblem a X y lips).groups.length, hlen',
    ← Finset.mul_sum]
  simp only [Ext.add, docGroupLasso]
  congr 2
  show DF.value DF.quadratic (fun _ => 1) y s.Xw s.w = _
  rw [value_eq_doc _ _ _ _ _ (fun _ _ => rfl) (fun _ h => by cases h)]
  simp only [docValue, docLeastSquares]
  congr 1
  exact Finset.sum_congr rfl (fun i _ => by rw [hc i]; rfl)


/-! ### corollaries, witnesses, non-vacuity -/

/-- `weights=None` builds the problem of `weights = [1.] * n_groups` -/
theorem groupLasso_no_weights_is_unit_weights (a : GroupLassoArgs ℝ p) (X : Fin n → Fin p → ℝ)
    (y : Fin n → ℝ) (lips : List ℝ) (hw : a.weights = none) :
    builtProblem a X y lips
      = builtProblem { a with weights := some (List.replicate (docNumGroups a.groups) 1) } X y lips := by
  obtain ⟨groups, alpha, weights, positive, fitInt⟩ := a
  subst hw
  rfl

/-- an int `k` builds the problem of the list of sizes `[k] * (n_features / k)` -/
theorem groupLasso_size_is_sizes (a : GroupLassoArgs ℝ p) (k : Nat) (hg : a.groups = .size k)
    (X : Fin n → Fin p → ℝ) (y : Fin n → ℝ) (lips : List ℝ) :
    (builtProblem a X y lips).groups
      = (builtProblem { a with groups := .sizes (List.replicate (p / k) k) } X y lips).groups := by
  obtain ⟨groups, alpha, weights, positive, fitInt⟩ := a
  simp only at hg
  subst hg
  rfl

/-- `GroupLasso.fit` checks only that the group *sizes* add up to `n_features`: index lists that
    repeat a feature and leave another one out are accepted (here `[[0, 0], [1]]` for three
    features), and the objective then counts the repeated coefficient twice: it is not the
    docstring's `‖w_[g]‖₂` -/
theorem groupLasso_repeated_index_accepted :
    ∃ (a : GroupLassoArgs ℝ 3) (X : Fin 1 → Fin 3 → ℝ) (y : Fin 1 → ℝ) (P : GrpProb ℝ 1 3)
      (s : CDState ℝ 1 3),
      a.fit X y [] = .ok P ∧ BCD.GConsistent P s ∧ (∀ grp ∈ P.groups, (2 : Fin 3) ∉ grp) ∧
      P.objective s = .fin (Real.sqrt 2) ∧ docGroupLasso a X y s.w s.b = 1 ∧
      P.objective s ≠ .fin (docGroupLasso a X y s.w s.b) := by
  let a : GroupLassoArgs ℝ 3 := ⟨.lists [[0, 0], [1]], 1, none, false, false⟩
  let s : CDState ℝ 1 3 := ⟨fun j => if j = 0 then 1 else 0, 0, fun _ => 0⟩
  have hfit : a.fit (fun _ _ => 0) (fun _ => 0) [] = .ok (builtProblem a (fun _ _ => 0) (fun _ => 0) []) :=
    groupLasso_fit_accepts a (n := 1) _ _ _ ⟨by simp, by simp⟩
  have hobj : (builtProblem a (fun (_ : Fin 1) _ => 0) (fun _ => 0) []).objective s
      = .fin (Real.sqrt 2) := by
    unfold GrpProb.objective GrpProb.penValue
    rw [esum_fin _ (fun gi => if gi.1 = 0 then Real.sqrt 2 else 0) (fun gi => by
      have h2 : gi.1 < 2 := gi.2
      rcases gi with ⟨g, hg⟩
      have : g = 0 ∨ g = 1 := by simp only at h2; omega
      rcases this with rfl | rfl
      · simp [GrpProb.penTerm, builtProblem, builtGroups, a, s, BlkPen.penBlk, norm2_eq, GrpProb.block,
          docNumGroups]
        norm_num
      · simp [GrpProb.penTerm, builtProblem, builtGroups, a, s, BlkPen.penBlk, norm2_eq, GrpProb.block,
          docNumGroups])]
    show Ext.add (.fin (DF.value DF.quadratic (fun _ => (1 : ℝ)) (fun _ => 0) (fun _ => 0) s.w)) _ = _
    rw [value_eq_doc _ _ _ _ _ (fun _ _ => rfl) (fun _ h => by cases h)]
    simp only [docValue, Ext.add]
    have : (builtProblem a (fun (_ : Fin 1) _ => 0) (fun _ => 0) []).groups.length = 2 := rfl
    rw [Fin.sum_univ_eq_sum_range (fun g => if g = 0 then Real.sqrt 2 else 0), this]
    simp
  have hdoc : docGroupLasso a (fun (_ : Fin 1) _ => 0) (fun _ => 0) s.w s.b = 1 := by
    simp [docGroupLasso, docLeastSquares, docNumGroups, docGroupWeight, docGroupNorm, inDocGroup, a, s,
      Finset.sum_range_succ, Fin.sum_univ_three]
  refine ⟨a, fun _ _ => 0, fun _ => 0, _, s, hfit, ?_, ?_, hobj, hdoc, ?_⟩
  · intro i; simp [s, builtProblem]
  · intro grp hgrp
    simp only [builtProblem, builtGroups, a, List.mem_cons, List.mem_nil_iff, or_false] at hgrp
    rcases hgrp with rfl | rfl <;> decide
  · rw [hobj, hdoc]
    intro h
    simp only [Ext.fin.injEq] at h
    have := Real.sqrt_eq_one.1 h
    norm_num at this

/-- non-vacuity: each of the three forms of `groups` is accepted on some input, and the hypothesis
    on index lists is satisfiable -/
example : Accepted (.size 2 : GroupsArg 4) ∧ Accepted (.sizes [1, 3] : GroupsArg 4) ∧
    Accepted (.lists [[2, 0], [1, 3]] : GroupsArg 4) ∧
    (∀ grp ∈ ([[2, 0], [1, 3]] : List (List (Fin 4))), grp.Nodup) := by
  refine ⟨⟨by norm_num, by norm_num⟩, ⟨by simp, by simp⟩, ⟨by simp, by simp⟩, by decide⟩

/-- … and what `grp_converter` returns on them -/
example : convGroups (.size 2 : GroupsArg 4) = .ok [[0, 1], [2, 3]] ∧
    convGroups (.sizes [1, 3] : GroupsArg 4) = .ok [[0], [1, 2, 3]] ∧
    convGroups (.lists [[2, 0], [1, 3]] : GroupsArg 4) = .ok [[2, 0], [1, 3]] ∧
    convGroups (.size 3 : GroupsArg 4) = .error .notMultiple := by
  refine ⟨by decide, by decide, by decide, by decide⟩

/-- non-vacuity: the state of any `(w, b)` with its model fit is consistent for the problem built -/
example (a : GroupLassoArgs ℝ p) (X : Fin n → Fin p → ℝ) (y : Fin n → ℝ) (lips : List ℝ)
    (w : Fin p → ℝ) (b : ℝ) :
    BCD.GConsistent (builtProblem a X y lips) ⟨w, b, fun i => (∑ j, X i j * w j) + b⟩ := fun _ => rfl

/-! ### `MultiTaskLasso` -/

theorem multiTaskLasso_obj_eq_doc (a : MultiTaskLassoArgs ℝ) (X : Fin n → Fin p → ℝ)
    (Y : Fin n → Fin T → ℝ) (s : MTState ℝ n p T) (hc : MT.MTConsistent (a.fit X Y) s) :
    (a.fit X Y).objective s = .fin (docMultiTaskLasso a.alpha X Y s.W s.b) := by
  unfold MTProb.objective MTProb.penValue
  rw [esum_fin _ (fun j => a.alpha * Real.sqrt (∑ k, s.W j k ^ 2)) (fun j => by
    simp only [MultiTaskLassoArgs.fit, MTProb.ofData, BlkPen.penBlk, norm2_eq]
    congr 3
    exact Finset.sum_congr rfl (fun k _ => by ring))]
  rw [MT.datafitValue_eq]
  simp only [Ext.add, docMultiTaskLasso, ← Finset.mul_sum]
  congr 2
  rw [one_div, inv_mul_eq_div]
  congr 1
  refine Finset.sum_congr rfl (fun i _ => Finset.sum_congr rfl (fun k _ => ?_))
  rw [hc i k]
  rfl

/-- non-vacuity: the state of any `(W, b)` with its model fit is consistent -/
example (a : MultiTaskLassoArgs ℝ) (X : Fin n → Fin p → ℝ) (Y : Fin n → Fin T → ℝ)
    (W : Fin p → Fin T → ℝ) (b : Fin T → ℝ) :
    MT.MTConsistent (a.fit X Y) ⟨W, b, fun i k => (∑ j, X i j * W j k) + b k⟩ := fun _ _ => rfl

/-! ### Cox -/

/-- the penalty `CoxEstimator.fit` builds, for `0 ≤ l1_ratio ≤ 1` -/
theorem cox_penalty_value (a : CoxArgs ℝ) (h0 : 0 ≤ a.l1_ratio) (h1 : a.l1_ratio ≤ 1)
    (w : Fin p → ℝ) : a.penalty.value w = .fin (docCoxPenalty a.alpha a.l1_ratio w) := by
  unfold CoxArgs.penalty docCoxPenalty
  by_cases e1 : a.l1_ratio = 1
  · rw [if_pos ((eqb_iff _ _).2 e1), if_neg (by rw [e1]; norm_num), if_pos e1]
    exact l1_value _ _
  · rw [if_neg (by rw [eqb_iff]; exact e1)]
    by_cases e0 : a.l1_ratio = 0
    · rw [if_neg (by rw [e0]; simp), if_pos e0]
      simp only [CoxPen.value, vsum_eq, nat_eq, Nat.cast_ofNat]
      congr 1
      rw [show (∑ j, w j * w j) = ∑ j, w j ^ 2 from Finset.sum_congr rfl (fun j _ => by ring)]
      ring
    · rw [if_pos ⟨lt_of_le_of_ne h0 (Ne.symm e0), lt_of_le_of_ne h1 e1⟩, if_neg e0, if_neg e1]
      exact l1l2_value _ _ _

/-- the sets `H_l` of the Efron formula: the uncensored observations, grouped by time -/
structure UncensoredTies (tm s : Fin n → ℝ) (H : List (List (Fin n))) : Prop where
  groups : DisjGroups H
  /-- `s ∈ {0, 1}ⁿ` -/
  binary : ∀ i, s i = 0 ∨ s i = 1
  /-- `∪_l H_l = {i | s_i = 1}` -/
  mem : ∀ i, (∃ g ∈ H, i ∈ g) ↔ s i = 1
  /-- the members of a set have the same time … -/
  tie : ∀ g ∈ H, ∀ a ∈ g, ∀ b ∈ g, tm a = tm b
  /-- … and a set holds every uncensored observation with that time -/
  full : ∀ g ∈ H, ∀ a ∈ g, ∀ b, s b = 1 → tm b = tm a → b ∈ g

theorem sum_indicator_groups {tm s : Fin n → ℝ} {H : List (List (Fin n))}
    (hH : UncensoredTies tm s H) (F : Fin n → ℝ) :
    ∑ i, s i * F i = (H.map (fun g => ∑ k : Fin g.length, F (g.get k))).sum := by
  have hnd : H.flatten.Nodup := List.nodup_flatten.2 ⟨hH.groups.nodup, hH.groups.disj⟩
  have h1 : ∀ i, s i * F i = if i ∈ H.flatten.toFinset then F i else 0 := by
    intro i
    by_cases hi : i ∈ H.flatten
    · rw [if_pos (List.mem_toFinset.2 hi)]
      obtain ⟨g, hg, hig⟩ := List.mem_flatten.1 hi
      rw [(hH.mem i).1 ⟨g, hg, hig⟩, one_mul]
    · rw [if_neg (by rwa [List.mem_toFinset])]
      rcases hH.binary i with h | h
      · rw [h, zero_mul]
      · obtain ⟨g, hg, hig⟩ := (hH.mem i).2 h
        exact absurd (List.mem_flatten.2 ⟨g, hg, hig⟩) hi
  rw [Finset.sum_congr rfl (fun i _ => h1 i), Finset.sum_ite_mem, Finset.univ_inter,
    List.sum_toFinset F hnd, List.map_flatten, List.sum_flatten, List.map_map]
  congr 1
  refine List.map_congr_left (fun g _ => ?_)
  simp only [Function.comp, List.get_eq_getElem, Fin.sum_univ_fun_getElem]

/-- `Cox(use_efron=True).value` is the documented Efron negative log partial likelihood -/
theorem cox_value_efron_eq_doc {tm s : Fin n → ℝ} {T H : List (List (Fin n))}
    (hT : TimeGroups tm T) (hH : UncensoredTies tm s H) (u : Fin n → ℝ) :
    coxValue true T H s u = docEfron tm H u := by
  simp only [coxValue, innerLog, if_true, mat_eq, dot_eq, scalar_log_eq, scalar_exp_eq, nat_eq,
    B_dot_vec_eq hT]
  have h2 : (-∑ i, s i * u i) + ∑ i, s i * Real.log
        ((∑ j, if tm i ≤ tm j then Real.exp (u j) else 0) - A_dot_vec H (fun i => Real.exp (u i)) i)
      = ∑ i, s i * (-(u i) + Real.log
        ((∑ j, if tm i ≤ tm j then Real.exp (u j) else 0)
          - A_dot_vec H (fun i => Real.exp (u i)) i)) := by
    rw [← Finset.sum_neg_distrib, ← Finset.sum_add_distrib]
    exact Finset.sum_congr rfl (fun i _ => by ring)
  rw [h2, sum_indicator_groups hH, docEfron, one_div, inv_mul_eq_div]
  congr 2
  refine List.map_congr_left (fun g hg => ?_)
  rw [← Finset.sum_add_distrib]
  refine Finset.sum_congr rfl (fun k _ => ?_)
  have hA := A_dot_vec_eq hH.groups (fun i => Real.exp (u i)) g hg k.1 k.2
  simp only [List.get_eq_getElem]
  rw [hA, Fin.sum_univ_fun_getElem g (fun i => Real.exp (u i))]

theorem cox_value_breslow_eq_doc {tm : Fin n → ℝ} {T : List (List (Fin n))} (hT : TimeGroups tm T)
    (H : List (List (Fin n))) (s u : Fin n → ℝ) : coxValue false T H s u = docBreslow tm s u := by
  rw [cox_value_eq_doc hT, docBreslow]
  congr 1
  exact Finset.sum_congr rfl (fun i _ => by ring)

/-- **CoxEstimator** -/
theorem cox_obj_eq_doc (a : CoxArgs ℝ) (h0 : 0 ≤ a.l1_ratio) (h1 : a.l1_ratio ≤ 1)
    (X : Fin n → Fin p → ℝ) (tm : Fin n → ℝ) (s : Option (Fin n → ℝ)) (T H : List (List (Fin n)))
    (hT : TimeGroups tm T) (hH : a.efron = true → UncensoredTies tm (coxCensoring s) H)
    (w : Fin p → ℝ) :
    (a.fit X s T H).objective w = .fin (docCox a X tm (coxCensoring s) H w) := by
  unfold CoxProb.objective
  simp only [CoxArgs.fit, cox_penalty_value a h0 h1, Ext.add, docCox, matVec_eq]
  congr 2
  cases he : a.efron
  · simp only [Bool.false_eq_true, if_false]
    exact cox_value_breslow_eq_doc hT _ _ _
  · simp only [if_true]
    exact cox_value_efron_eq_doc hT (hH he) _


/-- the documented penalty is the elastic-net formula at every `l1_ratio` (the three cases of the
    docstring are its values at `0`, `1` and in between) -/
theorem docCoxPenalty_eq_enet (alpha r : ℝ) (w : Fin p → ℝ) :
    docCoxPenalty alpha r w = r * alpha * ∑ j, |w j| + (1 - r) * alpha / 2 * ∑ j, w j ^ 2 := by
  unfold docCoxPenalty
  split_ifs with h0 h1
  · rw [h0]; ring
  · rw [h1]; ring
  · rfl

/-- for a valid `l1_ratio`, `LBFGS` is chosen exactly when the penalty is `L2` (the only one with
    a `gradient`), `ProxNewton` exactly when it is separable with a `prox_1d` -/
theorem cox_solver_matches_penalty (a : CoxArgs ℝ) (h0 : 0 ≤ a.l1_ratio) (h1 : a.l1_ratio ≤ 1) :
    (a.solver = .lbfgs ↔ a.penalty = .l2 a.alpha) ∧
    (a.solver = .proxNewton ↔ ∃ q, a.penalty = .sep q) := by
  unfold CoxArgs.solver CoxArgs.penalty
  by_cases e0 : a.l1_ratio = 0
  · have hne : ¬ a.l1_ratio = 1 := by rw [e0]; norm_num
    rw [if_pos ((eqb_iff _ _).2 e0), if_neg (by rw [eqb_iff]; exact hne),
      if_neg (by rw [e0]; simp)]
    simp
  · rw [if_neg (by rw [eqb_iff]; exact e0)]
    by_cases e1 : a.l1_ratio = 1
    · rw [if_pos ((eqb_iff _ _).2 e1)]; simp
    · rw [if_neg (by rw [eqb_iff]; exact e1),
        if_pos ⟨lt_of_le_of_ne h0 (Ne.symm e0), lt_of_le_of_ne h1 e1⟩]
      simp

/-- outside `[0, 1]` (excluded by `_validate_params`) the `else` branch builds `L2(alpha)` and hands
    it to `ProxNewton` -/
theorem cox_invalid_ratio (a : CoxArgs ℝ) (h : a.l1_ratio < 0 ∨ 1 < a.l1_ratio) :
    a.penalty = .l2 a.alpha ∧ a.solver = .proxNewton := by
  unfold CoxArgs.solver CoxArgs.penalty
  have e0 : ¬ a.l1_ratio = 0 := by rcases h with h | h <;> intro e <;> rw [e] at h <;> norm_num at h
  have e1 : ¬ a.l1_ratio = 1 := by rcases h with h | h <;> intro e <;> rw [e] at h <;> norm_num at h
  have b1 : ¬ eqb a.l1_ratio 1 = true := by rw [eqb_iff]; exact e1
  have b0 : ¬ eqb a.l1_ratio 0 = true := by rw [eqb_iff]; exact e0
  have b2 : ¬ (0 < a.l1_ratio ∧ a.l1_ratio < 1) := by
    rintro ⟨h2, h3⟩; rcases h with h | h <;> linarith
  rw [if_neg b1, if_neg b0, if_neg b2]
  exact ⟨rfl, rfl⟩

/-- the default `l1_ratio` of `CoxEstimator.__init__` (`0.7`) is not the one its docstring
    announces (`default=0.5`) -/
theorem cox_default_l1_ratio_ne_doc :
    (CoxArgs.default : CoxArgs ℝ).l1_ratio ≠ (CoxArgs.docDefaultL1Ratio : ℝ) := by
  simp only [CoxArgs.default, CoxArgs.docDefaultL1Ratio, frac_eq]
  norm_num

/-- a one-column `y` is read as times without censoring -/
theorem cox_one_column_no_censoring (i : Fin n) : coxCensoring (none : Option (Fin n → ℝ)) i = 1 :=
  rfl

/-- non-vacuity: three samples, two tied and uncensored, one censored -/
example : UncensoredTies (fun i : Fin 3 => if i = 1 then (1 : ℝ) else 2)
    (fun i : Fin 3 => if i = 1 then (0 : ℝ) else 1) [[0, 2]] where
  groups := ⟨by decide, by simp⟩
  binary := by intro i; fin_cases i <;> simp
  mem := by intro i; fin_cases i <;> simp
  tie := by
    intro g hg a ha b hb
    simp only [List.mem_cons, List.mem_nil_iff, or_false] at hg
    subst hg
    simp only [List.mem_cons, List.mem_nil_iff, or_false] at ha hb
    rcases ha with rfl | rfl <;> rcases hb with rfl | rfl <;> simp
  full := by
    intro g hg a ha b hb _
    simp only [List.mem_cons, List.mem_nil_iff, or_false] at hg
    subst hg
    fin_cases b <;> simp at hb ⊢

/-! ### `SqrtLasso` -/

theorem sqrt_four : Real.sqrt 4 = 2 := by
  rw [show (4 : ℝ) = 2 ^ 2 by norm_num, Real.sqrt_sq (by norm_num)]
theorem sqrtLasso_obj_eq_doc (a : SqrtLassoArgs ℝ) (X : Fin n → Fin p → ℝ) (y : Fin n → ℝ)
    (w : Fin p → ℝ) : (a.fit X y).objective w = .fin (docSqrtLasso a.alpha X y w) := by
  simp only [SqrtProb.objective, SqrtLassoArgs.fit, l1_value, Ext.add, docSqrtLasso,
    sqrtQuadraticValue, norm2_eq, matVec_eq]
  congr 3
  exact Finset.sum_congr rfl (fun i _ => by ring)

/-- the objective `SqrtLasso.fit` minimises is *not* the normalised one -/
theorem sqrtLasso_obj_ne_normalised :
    ∃ (a : SqrtLassoArgs ℝ) (X : Fin 4 → Fin 1 → ℝ) (y : Fin 4 → ℝ) (w : Fin 1 → ℝ),
      (a.fit X y).objective w ≠ .fin (normalisedSqrtLasso a.alpha X y w) := by
  refine ⟨⟨1⟩, fun _ _ => 1, fun _ => 1, fun _ => 0, ?_⟩
  rw [sqrtLasso_obj_eq_doc]
  simp only [docSqrtLasso, normalisedSqrtLasso, ne_eq, Ext.fin.injEq]
  norm_num [Fin.sum_univ_four, sqrt_four]

/-- before commit 56310fe the first `alpha` of `SqrtLasso.path(alphas=None)` was the critical value
    of the normalised objective, not of the objective the solver minimises: at that `alpha` the zero
    vector is not a minimiser -/
theorem sqrtLasso_path_alpha_max_not_critical :
    ∃ (X : Fin 4 → Fin 1 → ℝ) (y : Fin 4 → ℝ) (w : Fin 1 → ℝ),
      docSqrtLasso (sqrtLassoPathAlphaMaxOld X y) X y w
        < docSqrtLasso (sqrtLassoPathAlphaMaxOld X y) X y (fun _ => 0) := by
  refine ⟨fun _ _ => 1, fun _ => 1, fun _ => 1, ?_⟩
  have h : sqrtLassoPathAlphaMaxOld (fun (_ : Fin 4) (_ : Fin 1) => (1 : ℝ)) (fun _ => 1) = 1 := by
    simp only [sqrtLassoPathAlphaMaxOld, normInf, Fin.foldl_succ, Fin.foldl_zero, vsum_eq, norm2_eq,
      smax_eq, sabs_eq, nat_eq, scalar_sqrt_eq]
    norm_num [sqrt_four]
  rw [h]
  simp only [docSqrtLasso]
  norm_num [Fin.sum_univ_four, sqrt_four]

/-! ### the first `alpha` of `SqrtLasso.path(alphas=None)` after commit 56310fe -/

/-- the running maximum of `normInf`: at least the start value and every entry, and equal to one
    of them -/
theorem foldMax_spec : ∀ (p : Nat) (f : Fin p → ℝ) (b : ℝ),
    b ≤ Fin.foldl p (fun acc j => smax acc (f j)) b ∧
    (∀ j, f j ≤ Fin.foldl p (fun acc j => smax acc (f j)) b) ∧
    (Fin.foldl p (fun acc j => smax acc (f j)) b = b ∨
      ∃ j, Fin.foldl p (fun acc j => smax acc (f j)) b = f j) := by
  intro p
  induction p with
  | zero => intro f b; exact ⟨by simp [Fin.foldl_zero], fun j => j.elim0, Or.inl (by simp [Fin.foldl_zero])⟩
  | succ p ih =>
    intro f b
    obtain ⟨h1, h2, h3⟩ := ih (fun j => f j.castSucc) b
    rw [Fin.foldl_succ_last, smax_eq]
    refine ⟨le_trans h1 (le_max_left _ _), fun j => ?_, ?_⟩
    · refine Fin.lastCases (le_max_right _ _) (fun k => le_trans (h2 k) (le_max_left _ _)) j
    · rcases max_cases (Fin.foldl p (fun acc j => smax acc (f j.castSucc)) b) (f (Fin.last p))
        with ⟨e, _⟩ | ⟨e, _⟩
      · rw [e]
        rcases h3 with h | ⟨k, hk⟩
        · exact Or.inl h
        · exact Or.inr ⟨k.castSucc, hk⟩
      · rw [e]; exact Or.inr ⟨Fin.last p, rfl⟩

theorem normInf_nonneg (v : Fin p → ℝ) : 0 ≤ normInf v := (foldMax_spec p (fun j => sabs (v j)) 0).1

theorem abs_le_normInf (v : Fin p → ℝ) (j : Fin p) : |v j| ≤ normInf v := by
  have := (foldMax_spec p (fun j => sabs (v j)) 0).2.1 j
  rwa [sabs_eq] at this

theorem normInf_attained (v : Fin p → ℝ) (h : 0 < normInf v) : ∃ j, normInf v = |v j| := by
  rcases (foldMax_spec p (fun j => sabs (v j)) 0).2.2 with e | ⟨j, e⟩
  · exact absurd e (ne_of_gt h)
  · exact ⟨j, by rw [← sabs_eq]; exact e⟩

theorem doc_at_zero (alpha : ℝ) (X : Fin n → Fin p → ℝ) (y : Fin n → ℝ) :
    docSqrtLasso alpha X y (fun _ => 0) = norm2 y := by
  simp only [docSqrtLasso, norm2_eq, mul_zero, Finset.sum_const_zero, sub_zero, abs_zero, add_zero]
  congr 1
  exact Finset.sum_congr rfl (fun i _ => by ring)

theorem norm2_pos_of_ne_zero (y : Fin n → ℝ) (hy : ∃ i, y i ≠ 0) : 0 < norm2 y := by
  obtain ⟨i, hi⟩ := hy
  rw [norm2_eq]
  apply Real.sqrt_pos.2
  exact lt_of_lt_of_le (mul_self_pos.2 hi)
    (Finset.single_le_sum (f := fun i => y i * y i) (fun _ _ => mul_self_nonneg _) (Finset.mem_univ i))

/-- **first half**: from the first `alpha` of the automatic path on, the zero vector minimises the
    objective the solver minimises -/
theorem sqrtLasso_path_alpha_max_critical (X : Fin n → Fin p → ℝ) (y : Fin n → ℝ)
    (hy : ∃ i, y i ≠ 0) (alpha : ℝ) (h : sqrtLassoPathAlphaMax X y ≤ alpha) (w : Fin p → ℝ) :
    docSqrtLasso alpha X y (fun _ => 0) ≤ docSqrtLasso alpha X y w := by
  have hN := norm2_pos_of_ne_zero y hy
  rw [doc_at_zero]
  set M := normInf (fun j => vsum (fun i => X i j * y i)) with hM
  have hMa : M ≤ alpha * norm2 y := by
    have : M / norm2 y ≤ alpha := h
    rwa [div_le_iff₀ hN] at this
  -- `‖y‖² = ⟨y, y - Xw⟩ + ⟨y, Xw⟩`
  have hsplit : norm2 y * norm2 y
      = (∑ i, y i * (y i - ∑ j, X i j * w j)) + ∑ j, w j * ∑ i, X i j * y i := by
    rw [norm2_sq]
    have : ∑ j, w j * ∑ i, X i j * y i = ∑ i, y i * ∑ j, X i j * w j := by
      simp only [Finset.mul_sum]
      rw [Finset.sum_comm]
      exact Finset.sum_congr rfl (fun i _ => Finset.sum_congr rfl (fun j _ => by ring))
    rw [this, ← Finset.sum_add_distrib]
    exact Finset.sum_congr rfl (fun i _ => by ring)
  have hcs : ∑ i, y i * (y i - ∑ j, X i j * w j)
      ≤ norm2 y * norm2 (fun i => y i - ∑ j, X i j * w j) := inner_le y _
  have hlin : ∑ j, w j * ∑ i, X i j * y i ≤ M * ∑ j, |w j| := by
    rw [Finset.mul_sum]
    refine Finset.sum_le_sum (fun j _ => ?_)
    have h1 : |∑ i, X i j * y i| ≤ M := by
      have := abs_le_normInf (fun j => vsum (fun i => X i j * y i)) j
      rw [vsum_eq] at this
      exact this
    calc w j * ∑ i, X i j * y i ≤ |w j * ∑ i, X i j * y i| := le_abs_self _
      _ = |w j| * |∑ i, X i j * y i| := abs_mul _ _
      _ ≤ |w j| * M := mul_le_mul_of_nonneg_left h1 (abs_nonneg _)
      _ = M * |w j| := mul_comm _ _
  have hsum : 0 ≤ ∑ j, |w j| := Finset.sum_nonneg (fun _ _ => abs_nonneg _)
  have hres : norm2 (fun i => y i - ∑ j, X i j * w j)
      = Real.sqrt (∑ i, (y i - ∑ j, X i j * w j) ^ 2) := by
    rw [norm2_eq]; congr 1; exact Finset.sum_congr rfl (fun i _ => by ring)
  unfold docSqrtLasso
  rw [← hres]
  have key : norm2 y * norm2 y
      ≤ norm2 y * (norm2 (fun i => y i - ∑ j, X i j * w j) + alpha * ∑ j, |w j|) := by
    calc norm2 y * norm2 y
        ≤ norm2 y * norm2 (fun i => y i - ∑ j, X i j * w j) + M * ∑ j, |w j| := by
          rw [hsplit]; exact add_le_add hcs hlin
      _ ≤ norm2 y * norm2 (fun i => y i - ∑ j, X i j * w j) + alpha * norm2 y * ∑ j, |w j| :=
          add_le_add le_rfl (mul_le_mul_of_nonneg_right hMa hsum)
      _ = _ := by ring
  exact le_of_mul_le_mul_left key hN


/-- **second half**: below it (for a non-negative strength) the zero vector is not a minimiser: a
    small step along a coordinate that attains `‖Xᵀy‖∞` decreases the objective -/
theorem sqrtLasso_below_alpha_max_not_minimiser (X : Fin n → Fin p → ℝ) (y : Fin n → ℝ)
    (hy : ∃ i, y i ≠ 0) (alpha : ℝ) (h0 : 0 ≤ alpha) (h : alpha < sqrtLassoPathAlphaMax X y) :
    ∃ w, docSqrtLasso alpha X y w < docSqrtLasso alpha X y (fun _ => 0) := by
  have hN := norm2_pos_of_ne_zero y hy
  have hMa : alpha * norm2 y < normInf (fun j => vsum (fun i => X i j * y i)) := by
    have : alpha < normInf (fun j => vsum (fun i => X i j * y i)) / norm2 y := h
    rwa [lt_div_iff₀ hN] at this
  have hMpos : 0 < normInf (fun j => vsum (fun i => X i j * y i)) :=
    lt_of_le_of_lt (mul_nonneg h0 hN.le) hMa
  obtain ⟨j, hj⟩ := normInf_attained _ hMpos
  rw [vsum_eq] at hj
  generalize normInf (fun j => vsum (fun i => X i j * y i)) = M at hMa hMpos hj
  set c := ∑ i, X i j * y i with hc
  set N := norm2 y with hNdef
  -- the sign of the correlation, the squared norm of the column, the step
  obtain ⟨sg, hsg1, hsgc⟩ : ∃ sg : ℝ, sg * sg = 1 ∧ sg * c = M := by
    rcases le_total 0 c with h | h
    · exact ⟨1, by ring, by rw [hj, abs_of_nonneg h]; ring⟩
    · exact ⟨-1, by ring, by rw [hj, abs_of_nonpos h]; ring⟩
  have hsgabs : |sg| = 1 := by
    have : |sg| * |sg| = 1 := by rw [← abs_mul, hsg1, abs_one]
    nlinarith [abs_nonneg sg]
  set K := ∑ i, X i j * X i j with hK
  have hK0 : 0 ≤ K := Finset.sum_nonneg (fun _ _ => mul_self_nonneg _)
  have hδ : 0 < M - alpha * N := by linarith
  set t := (M - alpha * N) / (K + 1) with ht
  have ht0 : 0 < t := div_pos hδ (by linarith)
  have htK : t * K ≤ M - alpha * N := by
    rw [ht, div_mul_eq_mul_div, div_le_iff₀ (by linarith)]
    nlinarith
  refine ⟨fun j' => if j' = j then t * sg else 0, ?_⟩
  rw [doc_at_zero]
  have hXw : ∀ i, ∑ j', X i j' * (if j' = j then t * sg else 0) = X i j * (t * sg) := by
    intro i
    simp only [mul_ite, mul_zero, Finset.sum_ite_eq', Finset.mem_univ, if_true]
  have hl1 : ∑ j', |if j' = j then t * sg else 0| = t := by
    have : ∀ j', |if j' = j then t * sg else 0| = if j' = j then t else 0 := by
      intro j'
      split_ifs
      · rw [abs_mul, hsgabs, abs_of_pos ht0, mul_one]
      · exact abs_zero
    simp only [this, Finset.sum_ite_eq', Finset.mem_univ, if_true]
  have hQ : ∑ i, (y i - ∑ j', X i j' * (if j' = j then t * sg else 0)) ^ 2
      = N * N - 2 * t * M + t * t * K := by
    simp only [hXw]
    have : ∀ i, (y i - X i j * (t * sg)) ^ 2
        = y i * y i - 2 * t * sg * (X i j * y i) + t * t * (sg * sg) * (X i j * X i j) := by
      intro i; ring
    simp only [this, Finset.sum_add_distrib, Finset.sum_sub_distrib, ← Finset.mul_sum]
    rw [← hc, ← hK, hsg1, ← norm2_sq, mul_assoc (2 * t) sg c, hsgc]
    ring
  unfold docSqrtLasso
  rw [hQ, hl1]
  set Q := N * N - 2 * t * M + t * t * K with hQdef
  have hQ0 : 0 ≤ Q := by rw [← hQ]; exact Finset.sum_nonneg (fun _ _ => sq_nonneg _)
  have hs : Real.sqrt Q * Real.sqrt Q = Q := Real.mul_self_sqrt hQ0
  have hs0 := Real.sqrt_nonneg Q
  -- `2 N √Q ≤ Q + N²`
  have ham : 2 * N * Real.sqrt Q ≤ Q + N * N := by nlinarith [sq_nonneg (Real.sqrt Q - N)]
  have hfin : 2 * N * (Real.sqrt Q + alpha * t) < 2 * N * N := by
    have : t * (t * K) ≤ t * (M - alpha * N) := mul_le_mul_of_nonneg_left htK ht0.le
    have h2 : 0 < t * (M - alpha * N) := mul_pos ht0 hδ
    nlinarith
  have h2N : 0 < 2 * N := by linarith
  exact lt_of_mul_lt_mul_left hfin h2N.le

/-- the automatic path's first `alpha` is exactly the critical strength of the objective the
    solver minimises: for `alpha ≥ 0`, the zero vector is a minimiser iff `alpha_max ≤ alpha` -/
theorem sqrtLasso_zero_minimiser_iff (X : Fin n → Fin p → ℝ) (y : Fin n → ℝ) (hy : ∃ i, y i ≠ 0)
    (alpha : ℝ) (h0 : 0 ≤ alpha) :
    (∀ w, docSqrtLasso alpha X y (fun _ => 0) ≤ docSqrtLasso alpha X y w)
      ↔ sqrtLassoPathAlphaMax X y ≤ alpha := by
  constructor
  · intro hmin
    by_contra hlt
    obtain ⟨w, hw⟩ := sqrtLasso_below_alpha_max_not_minimiser X y hy alpha h0 (not_le.1 hlt)
    exact absurd (hmin w) (not_le.2 hw)
  · exact fun h w => sqrtLasso_path_alpha_max_critical X y hy alpha h w

/-- on the witness of `sqrtLasso_path_alpha_max_not_critical` the repaired value is twice the old
    one (`sqrt(n) = 2`) -/
example : sqrtLassoPathAlphaMax (fun (_ : Fin 4) (_ : Fin 1) => (1 : ℝ)) (fun _ => 1) = 2 := by
  simp only [sqrtLassoPathAlphaMax, normInf, Fin.foldl_succ, Fin.foldl_zero, vsum_eq, norm2_eq,
    smax_eq, sabs_eq]
  norm_num [sqrt_four]

end Skglm.C11b
