import Skglm.Spec.Solver
namespace Skglm.SolverProps
theorem placeholder : True := trivial
end Skglm.SolverProps
