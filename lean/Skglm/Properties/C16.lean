import Skglm.Spec.Penalties
import Skglm.Proofs.Reductions
/-
  C16 — critical regularisation strength (kernel level): with `g0` the gradient at the null model,
  `alpha ≥ alpha_max(g0)` iff every coordinate score at `w = 0` is zero, i.e. iff the null model is
  first-order stationary; below it some coordinate has a positive score.
-/
namespace Skglm.C16
open Skglm

/-- per coordinate (no positivity): score at zero vanishes iff `alpha` dominates that coordinate's
    contribution to `alpha_max`; excluded coordinates (zero weight) are unpenalised. -/
theorem l1_zero_score_iff (a g0 : ℝ) (ha : 0 ≤ a) :
    (SepPen.l1 a false).sd1 1 0 g0 = .fin 0 ↔ |g0| ≤ a := by
  have e : (SepPen.l1 a false).sd1 1 0 g0 = .fin (SepPen.sdZero g0 a) := by
    simp [SepPen.sd1, eqb_iff]
  rw [e, Proofs.Red.fin_eq_iff, Proofs.Red.sdZero_eq_zero_iff]

theorem mcp_zero_score_iff (a gm g0 : ℝ) (ha : 0 ≤ a) :
    (SepPen.mcp a gm false).sd1 1 0 g0 = .fin 0 ↔ |g0| ≤ a := by
  have e : (SepPen.mcp a gm false).sd1 1 0 g0 = .fin (SepPen.sdZero g0 a) := by
    simp [SepPen.sd1, eqb_iff]
  rw [e, Proofs.Red.fin_eq_iff, Proofs.Red.sdZero_eq_zero_iff]

theorem wl1_zero_score_iff (a wt g0 : ℝ) (ha : 0 ≤ a) (hwt : 0 < wt) :
    (SepPen.wl1 a false).sd1 wt 0 g0 = .fin 0 ↔ |g0 / wt| ≤ a := by
  have e : (SepPen.wl1 a false).sd1 wt 0 g0 = .fin (SepPen.sdZero g0 (a * wt)) := by
    simp [SepPen.sd1, eqb_iff]
  rw [e, Proofs.Red.fin_eq_iff, Proofs.Red.sdZero_eq_zero_iff, abs_div, abs_of_pos hwt, div_le_iff₀ hwt]

theorem wmcp_zero_score_iff (a gm wt g0 : ℝ) (ha : 0 ≤ a) (hwt : 0 < wt) :
    (SepPen.wmcp a gm false).sd1 wt 0 g0 = .fin 0 ↔ |g0 / wt| ≤ a := by
  have e : (SepPen.wmcp a gm false).sd1 wt 0 g0 = .fin (SepPen.sdZero g0 (a * wt)) := by
    simp [SepPen.sd1, eqb_iff]
  rw [e, Proofs.Red.fin_eq_iff, Proofs.Red.sdZero_eq_zero_iff, abs_div, abs_of_pos hwt, div_le_iff₀ hwt]

/-- elastic net: the critical value is `|g0| / l1_ratio` -/
theorem l1l2_zero_score_iff (a r g0 : ℝ) (ha : 0 ≤ a) (hr : 0 < r) :
    (SepPen.l1l2 a r false).sd1 1 0 g0 = .fin 0 ↔ |g0| / r ≤ a := by
  have e : (SepPen.l1l2 a r false).sd1 1 0 g0 = .fin (SepPen.sdZero g0 (a * r)) := by
    simp [SepPen.sd1, eqb_iff]
  rw [e, Proofs.Red.fin_eq_iff, Proofs.Red.sdZero_eq_zero_iff, div_le_iff₀ hr]

/-- the modelled `alpha_max` contributions are exactly these thresholds -/
theorem alphaMax1_eq (a gm r wt g0 : ℝ) (hwt : wt ≠ 0) :
    (SepPen.l1 a false).alphaMax1 1 g0 = some |g0| ∧
    (SepPen.mcp a gm false).alphaMax1 1 g0 = some |g0| ∧
    (SepPen.l1l2 a r false).alphaMax1 1 g0 = some (|g0| / r) ∧
    (SepPen.wl1 a false).alphaMax1 wt g0 = some |g0 / wt| ∧
    (SepPen.wmcp a gm false).alphaMax1 wt g0 = some |g0 / wt| ∧
    (SepPen.wl1 a false).alphaMax1 0 g0 = none := by
  have h1 : nz wt = true := (nz_iff wt).2 hwt
  have h0 : nz (0:ℝ) = false := by
    rw [← Bool.not_eq_true, nz_iff]; simp
  refine ⟨?_, ?_, ?_, ?_, ?_, ?_⟩ <;> simp [SepPen.alphaMax1, sabs_eq, h1, h0]

/-- with positivity, `alpha ≥ |g0|` is sufficient for a zero score at zero -/
theorem l1_pos_zero_score (a g0 : ℝ) (h : |g0| ≤ a) : (SepPen.l1 a true).sd1 1 0 g0 = .fin 0 := by
  have e : (SepPen.l1 a true).sd1 1 0 g0 = .fin (SepPen.sdZeroPos g0 a) := by
    simp [SepPen.sd1, eqb_iff]
  rw [e, Proofs.Red.fin_eq_iff]
  unfold SepPen.sdZeroPos
  rw [smax_eq]
  have := neg_abs_le g0
  exact max_eq_left (by linarith)

end Skglm.C16
