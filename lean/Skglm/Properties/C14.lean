import Skglm.Spec.Penalties
import Skglm.Spec.Losses
import Skglm.Model.BlockPenalties
import Skglm.Proofs.Reductions
import Skglm.Proofs.SlopeConst
/-
  C14 — general components reduce to the simpler ones they generalise (kernel level: the reductions
  are equalities of the modelled kernels for *all* inputs; converged solutions then coincide because the
  solvers only see the kernels).
-/
namespace Skglm.C14
open Skglm

/-- unit weights: WeightedL1 = L1 (prox, score, value, support) -/
theorem wl1_unit_weights (a : ℝ) (pos : Bool) (x s w g : ℝ) :
    (SepPen.wl1 a pos).prox1 1 x s = (SepPen.l1 a pos).prox1 1 x s ∧
    (SepPen.wl1 a pos).sd1 1 w g = (SepPen.l1 a pos).sd1 1 w g ∧
    (SepPen.wl1 a pos).pen1 1 w = (SepPen.l1 a pos).pen1 1 w ∧
    (SepPen.wl1 a pos).alphaMax1 1 g = (SepPen.l1 a pos).alphaMax1 1 g := by
  have h1 : nz (1:ℝ) = true := (nz_iff 1).2 one_ne_zero
  refine ⟨?_, ?_, ?_, ?_⟩
  · simp only [SepPen.prox1, mul_one]
  · simp only [SepPen.sd1, mul_one]
    have e : a * sgn w = sgn w * a := mul_comm _ _
    rw [e]
  · cases pos <;> simp [SepPen.pen1, SepPen.positive]
  · simp only [SepPen.alphaMax1, h1, if_true, div_one]

/-- unit weights: WeightedMCP = MCP -/
theorem wmcp_unit_weights (a gm : ℝ) (pos : Bool) (x s w g : ℝ) :
    (SepPen.wmcp a gm pos).prox1 1 x s = (SepPen.mcp a gm pos).prox1 1 x s ∧
    (SepPen.wmcp a gm pos).sd1 1 w g = (SepPen.mcp a gm pos).sd1 1 w g ∧
    (SepPen.wmcp a gm pos).pen1 1 w = (SepPen.mcp a gm pos).pen1 1 w := by
  refine ⟨rfl, ?_, ?_⟩
  · simp only [SepPen.sd1, mul_one, one_mul]
  · cases pos <;> simp [SepPen.pen1, SepPen.positive]

/-- `l1_ratio = 1`: elastic net = L1 -/
theorem l1l2_ratio_one (a : ℝ) (pos : Bool) (x s w g : ℝ) :
    (SepPen.l1l2 a 1 pos).prox1 1 x s = (SepPen.l1 a pos).prox1 1 x s ∧
    (SepPen.l1l2 a 1 pos).sd1 1 w g = (SepPen.l1 a pos).sd1 1 w g ∧
    (SepPen.l1l2 a 1 pos).pen1 1 w = (SepPen.l1 a pos).pen1 1 w ∧
    (SepPen.l1l2 a 1 pos).alphaMax1 1 g = (SepPen.l1 a pos).alphaMax1 1 g := by
  refine ⟨?_, ?_, ?_, ?_⟩
  · simp only [SepPen.prox1, one_mul, sub_self, mul_zero, zero_mul, add_zero, div_one]
  · simp only [SepPen.sd1, mul_one, one_mul, sub_self, zero_mul, add_zero]
    have e : a * sgn w = sgn w * a := mul_comm _ _
    rw [e]
  · cases pos <;> simp [SepPen.pen1, SepPen.positive]
  · simp only [SepPen.alphaMax1, div_one]

/-- singleton groups: block soft-thresholding of a 1-vector is (weighted) soft-thresholding,
    for both positivity settings -/
theorem group_singleton_prox (a wt s x : ℝ) (pos : Bool) (ha : 0 ≤ a) (hs : 0 ≤ s) (hwt : 0 ≤ wt) :
    (BlkPen.wgl2 a pos).proxBlk wt (fun _ : Fin 1 => 1) (fun _ => x) s 0 = (SepPen.wl1 a pos).prox1 wt x s := by
  simp only [BlkPen.proxBlk, SepPen.prox1]
  exact Proofs.Red.BST_fin1 x _ pos (mul_nonneg (mul_nonneg ha hs) hwt)

/-- singleton groups: the group score is the weighted-L1 score -/
theorem group_singleton_score (a wt w g : ℝ) (pos : Bool) (ha : 0 ≤ a) (hwt : 0 ≤ wt) :
    (BlkPen.wgl2 a pos).sdBlk wt (fun _ : Fin 1 => w) (fun _ => g) = some ((SepPen.wl1 a pos).sd1 wt w g) := by
  have hawt : 0 ≤ a * wt := mul_nonneg ha hwt
  cases pos
  · simp only [BlkPen.sdBlk, SepPen.sd1, Proofs.Red.norm2_fin1, eqb_iff, abs_eq_zero, SepPen.sdZero, sabs_eq,
      smax_eq, Bool.false_eq_true, if_false]
    by_cases hw : w = 0
    · rw [if_pos hw, if_pos hw]
    · rw [if_neg hw, if_neg hw, mul_div_assoc, Proofs.Red.div_abs_eq_sgn w hw]
  · simp only [BlkPen.sdBlk, SepPen.sd1, Proofs.Red.norm2_fin1, eqb_iff, abs_eq_zero, SepPen.sdZeroPos, sabs_eq,
      smax_eq, if_true, Proofs.Red.foldl_fin1]
    rcases lt_trichotomy w 0 with hw | hw | hw
    · rw [if_neg hw.ne, if_pos hw, if_pos hw]
    · subst hw
      rw [if_pos rfl, if_neg (lt_irrefl _), if_pos rfl]
      congr 2
      by_cases hg : g < 0
      · rw [if_pos hg, abs_of_neg hg]
      · rw [if_neg hg, abs_zero]
        push Not at hg
        rw [max_eq_left (by linarith), max_eq_left (by linarith)]
    · rw [if_neg hw.ne', if_neg (not_lt.2 hw.le), if_neg (not_lt.2 hw.le), if_neg hw.ne', if_pos hw,
        mul_div_assoc, Proofs.Red.div_abs_eq_sgn w hw.ne', sgn_pos hw, mul_one, ← abs_neg]
      congr 3
      ring

/-- one task: the L2/1 row penalty is L1 (prox and value) -/
theorem l21_one_task (a s x : ℝ) (ha : 0 ≤ a) (hs : 0 ≤ s) :
    (BlkPen.l21 a).proxBlk 1 (fun _ : Fin 1 => 1) (fun _ => x) s 0 = (SepPen.l1 a false).prox1 1 x s ∧
    (BlkPen.l21 a).penBlk 1 (fun _ : Fin 1 => 1) (fun _ => x) = (SepPen.l1 a false).pen1 1 x := by
  constructor
  · simp only [BlkPen.proxBlk, SepPen.prox1]
    exact Proofs.Red.BST0_fin1 x _ (mul_nonneg ha hs)
  · simp [BlkPen.penBlk, SepPen.pen1, SepPen.positive, Proofs.Red.norm2_fin1, sabs_eq]

/-- very large MCP gamma: the MCP prox is within `|x|·s/(γ-s)` of soft-thresholding, hence converges
    to it as `γ → ∞` -/
theorem mcp_gamma_large (a gm s x : ℝ) (ha : 0 ≤ a) (hs : 0 < s) (hg : s < gm) (hx : |x| ≤ a * gm) :
    |(SepPen.mcp a gm false).prox1 1 x s - (SepPen.l1 a false).prox1 1 x s| ≤ |x| * s / (gm - s) := by
  have hgm : 0 < gm := by linarith
  have hgs : 0 < gm - s := by linarith
  have hrhs : 0 ≤ |x| * s / (gm - s) := div_nonneg (mul_nonneg (abs_nonneg _) hs.le) hgs.le
  have has : 0 ≤ a * s := mul_nonneg ha hs.le
  simp only [SepPen.prox1, prox_MCP, ST, sabs_eq, one_mul]
  by_cases h1 : |x| ≤ a * s
  · have h1' := abs_le.1 h1
    rw [if_pos (Or.inl h1), if_neg (by linarith), if_neg (by rintro ⟨h, _⟩; linarith)]
    simpa using hrhs
  · rw [if_neg (by rintro (h | ⟨h, _⟩); exact h1 h; cases h), if_neg (not_lt.2 hx)]
    push Not at h1
    have hden : (1 - s / gm) ≠ 0 := by
      have : s / gm < 1 := (div_lt_one hgm).2 hg
      linarith
    have key : ∀ t : ℝ, 0 ≤ t → t ≤ |x| → |t / (1 - s / gm) - t| ≤ |x| * s / (gm - s) := by
      intro t ht0 ht
      have e : t / (1 - s / gm) - t = t * s / (gm - s) := by
        field_simp
        ring
      rw [e, abs_of_nonneg (div_nonneg (mul_nonneg ht0 hs.le) hgs.le)]
      exact div_le_div_of_nonneg_right (mul_le_mul_of_nonneg_right ht hs.le) hgs.le
    rcases lt_or_ge x 0 with hneg | hpos
    · rw [abs_of_neg hneg] at h1 key ⊢
      rw [sgn_neg hneg, if_neg (by linarith), if_pos ⟨by linarith, trivial⟩]
      have := key (-x - a * s) (by linarith) (by linarith)
      have e : -1 * (-x - a * s) / (1 - s / gm) - (x + a * s)
          = -((-x - a * s) / (1 - s / gm) - (-x - a * s)) := by ring
      rw [e, abs_neg]
      exact this
    · rw [abs_of_nonneg hpos] at h1 key ⊢
      have hx0 : 0 < x := by linarith
      rw [sgn_pos hx0, if_pos h1, one_mul]
      exact key (x - a * s) (by linarith) (by linarith)

/-- Huber with `delta` above the residual is the quadratic datafit (loss and derivative) -/
theorem huber_delta_large (delta y u : ℝ) (h : |y - u| < delta) :
    (DF.huber delta).loss1 y u = (DF.quadratic : DF ℝ).loss1 y u ∧
    (DF.huber delta).dloss1 y u = (DF.quadratic : DF ℝ).dloss1 y u := by
  constructor
  · simp only [DF.loss1, sabs_eq, frac_eq, nat_eq]
    rw [if_pos h, abs_mul_abs_self]
    push_cast
    ring
  · simp only [DF.dloss1, sabs_eq]
    rw [if_pos h]
    ring

/-- unit sample weights: WeightedQuadratic = Quadratic (value, gradients, constants, intercept step) -/
theorem wquadratic_unit_weights {n p : Nat} (X : Fin n → Fin p → ℝ) (y u : Fin n → ℝ) (w : Fin p → ℝ)
    (j : Fin p) :
    (DF.wquadratic : DF ℝ).value (fun _ => 1) y u w = (DF.quadratic : DF ℝ).value (fun _ => 1) y u w ∧
    (DF.wquadratic : DF ℝ).gradScalar X (fun _ => 1) y u j = (DF.quadratic : DF ℝ).gradScalar X (fun _ => 1) y u j ∧
    (DF.wquadratic : DF ℝ).lipschitz X (fun _ => 1) j = (DF.quadratic : DF ℝ).lipschitz X (fun _ => 1) j ∧
    (DF.wquadratic : DF ℝ).interceptStep (fun _ => 1) y u = (DF.quadratic : DF ℝ).interceptStep (fun _ => 1) y u := by
  have hn : (DF.wquadratic : DF ℝ).normaliser (fun _ : Fin n => (1:ℝ))
      = (DF.quadratic : DF ℝ).normaliser (fun _ : Fin n => (1:ℝ)) := by
    simp only [DF.normaliser, Proofs.Red.vsum_const_one, nat_eq]
  refine ⟨?_, ?_, ?_, ?_⟩
  · simp only [DF.value, hn, DF.loss1, DF.lin]
  · simp only [DF.gradScalar, DF.rawGrad, hn, DF.dloss1, DF.lin]
  · simp only [DF.lipschitz, DF.curvBound, hn]
  · have hr : (DF.wquadratic : DF ℝ).rawGrad (fun _ => 1) y u
        = (DF.quadratic : DF ℝ).rawGrad (fun _ => 1) y u := by
      funext i
      simp only [DF.rawGrad, hn, DF.dloss1]
    simp only [DF.interceptStep, hr, DF.interceptScale]

/-- integer sample weights = replicated rows: a sample with weight `k` contributes like `k` copies
    (statement per sample: the weighted loss term is the sum of `k` unweighted ones) -/
theorem wquadratic_integer_weight (k : Nat) (y u : ℝ) :
    (k : ℝ) * (DF.wquadratic : DF ℝ).loss1 y u = ∑ _i : Fin k, (DF.quadratic : DF ℝ).loss1 y u := by
  simp [DF.loss1]

example : (SepPen.wl1 (2:ℝ) false).prox1 1 5 1 = 3 := by
  simp [SepPen.prox1, ST]; norm_num

/-- constant SLOPE sequence = L1: on a non-increasing vector (the form `SLOPE.prox_vec` passes to the
    kernel after sorting absolute values) with all `alphas` equal to `a`, the stack-based PAVA returns
    the soft-thresholded values `max(z_i - a, 0)`, for every length and every tie pattern. -/
theorem slope_constant_is_l1 (z : List ℝ) (a : ℝ) (hz : z.Pairwise (fun x y => y ≤ x)) :
    prox_SLOPE z (List.replicate z.length a) = z.map (fun zi => if zi - a < 0 then 0 else zi - a) :=
  Proofs.slope_constant_eq_l1 z a hz

/-- non-vacuity: a sorted vector with a tie -/
example : ([3, 2, 2, 1] : List ℝ).Pairwise (fun x y => y ≤ x) := by
  simp only [List.pairwise_cons, List.mem_cons]; norm_num


end Skglm.C14
