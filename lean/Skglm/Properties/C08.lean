import Skglm.Proofs.Subdiff
import Skglm.Proofs.Prox
/-
  C08 — the optimality measure is sound.

  `IsDistToSubdiff φ w grad d` : `d` is the Euclidean distance from `-grad` to the regular
  sub-differential of the documented penalty `φ` at `w`; `d = inf` iff that set is empty (which is
  the case exactly at points violating a configured positivity constraint).
-/
namespace Skglm.C08
open Skglm Skglm.Spec

theorem sd_l1 (a : ℝ) (pos : Bool) (wt w grad : ℝ) (ha : 0 ≤ a) :
    IsDistToSubdiff (pen (.l1 a pos) wt) w grad ((SepPen.l1 a pos).sd1 wt w grad) :=
  Proofs.sd_l1 a pos wt w grad ha

theorem sd_wl1 (a : ℝ) (pos : Bool) (wt w grad : ℝ) (ha : 0 ≤ a) (hwt : 0 ≤ wt) :
    IsDistToSubdiff (pen (.wl1 a pos) wt) w grad ((SepPen.wl1 a pos).sd1 wt w grad) :=
  Proofs.sd_wl1 a pos wt w grad ha hwt

theorem sd_l1l2 (a r : ℝ) (pos : Bool) (wt w grad : ℝ) (ha : 0 ≤ a) (hr0 : 0 ≤ r) (hr1 : r ≤ 1) :
    IsDistToSubdiff (pen (.l1l2 a r pos) wt) w grad ((SepPen.l1l2 a r pos).sd1 wt w grad) :=
  Proofs.sd_l1l2 a r pos wt w grad ha hr0 hr1

theorem sd_mcp (a g : ℝ) (pos : Bool) (wt w grad : ℝ) (ha : 0 ≤ a) (hg : 0 < g) :
    IsDistToSubdiff (pen (.mcp a g pos) wt) w grad ((SepPen.mcp a g pos).sd1 wt w grad) :=
  Proofs.sd_mcp a g pos wt w grad ha hg

theorem sd_wmcp (a g : ℝ) (pos : Bool) (wt w grad : ℝ) (ha : 0 ≤ a) (hg : 0 < g) (hwt : 0 ≤ wt) :
    IsDistToSubdiff (pen (.wmcp a g pos) wt) w grad ((SepPen.wmcp a g pos).sd1 wt w grad) :=
  Proofs.sd_wmcp a g pos wt w grad ha hg hwt

theorem sd_scad (a g : ℝ) (wt w grad : ℝ) (ha : 0 ≤ a) (hg : 1 < g) :
    IsDistToSubdiff (pen (.scad a g) wt) w grad ((SepPen.scad a g).sd1 wt w grad) :=
  Proofs.sd_scad a g wt w grad ha hg

theorem sd_box (a : ℝ) (wt w grad : ℝ) (ha : 0 < a) (hw0 : 0 ≤ w) (hwa : w ≤ a) :
    IsDistToSubdiff (pen (.box a) wt) w grad ((SepPen.box a).sd1 wt w grad) :=
  Proofs.sd_box a wt w grad ha hw0 hwa

theorem sd_pos (wt w grad : ℝ) :
    IsDistToSubdiff (pen (.pos) wt) w grad ((SepPen.pos : SepPen ℝ).sd1 wt w grad) :=
  Proofs.sd_pos wt w grad

theorem sd_logsum (a e : ℝ) (wt w grad : ℝ) (ha : 0 ≤ a) (he : 0 < e) :
    IsDistToSubdiff (pen (.logsum a e) wt) w grad ((SepPen.logsum a e).sd1 wt w grad) :=
  Proofs.sd_logsum a e wt w grad ha he

theorem sd_l05 (a : ℝ) (wt w grad : ℝ) (ha : 0 < a) :
    IsDistToSubdiff (pen (.l05 a) wt) w grad ((SepPen.l05 a).sd1 wt w grad) :=
  Proofs.sd_l05 a wt w grad ha

theorem sd_l23 (a : ℝ) (wt w grad : ℝ) (ha : 0 < a) :
    IsDistToSubdiff (pen (.l23 a) wt) w grad ((SepPen.l23 a).sd1 wt w grad) :=
  Proofs.sd_l23 a wt w grad ha

/-- the score is zero exactly at first-order stationary points (any penalty with a `sd_*` theorem) -/
theorem score_zero_iff_stationary (φ : ℝ → Option ℝ) (w grad : ℝ) (d : Ext ℝ)
    (h : IsDistToSubdiff φ w grad d) : d = .fin 0 ↔ IsRegSubgrad φ w (-grad) :=
  Proofs.score_zero_iff φ w grad d h

/-- a configured positivity constraint that is violated gives an infinite score -/
theorem infeasible_is_inf (p : SepPen ℝ) (wt w grad : ℝ) (hp : p.positive = true) (hw : w < 0) :
    p.sd1 wt w grad = .inf := by
  have hne : ¬ w = 0 := hw.ne
  have hnp : ¬ 0 < w := not_lt.2 hw.le
  cases p <;> simp only [SepPen.positive] at hp <;> cases hp
  all_goals simp [SepPen.sd1, eqb_iff, hw, hne, hnp]

/-- features flagged as unpenalised contribute nothing to the value, at points satisfying the
    configured positivity constraint (`hfeas`; since `value()` returns `inf` at points violating
    `positive=True`, the statement is false without it: `wl1 a true`, `wt = 0`, `w = -1`) -/
theorem unpenalized_contributes_nothing (p : SepPen ℝ) (wt w : ℝ) (h : p.isPen1 wt = false)
    (hfeas : ¬ (p.positive = true ∧ w < 0)) :
    p.pen1 wt w = .fin 0 := by
  cases p <;> simp only [SepPen.isPen1] at h <;> first | cases h | skip
  have hwt : wt = 0 := by
    by_contra hne
    rw [(nz_iff wt).2 hne] at h
    cases h
  subst hwt
  unfold SepPen.pen1
  rw [if_neg hfeas]
  show Ext.fin _ = Ext.fin 0
  congr 1
  show _ * (_ * (0:ℝ)) = 0
  ring

end Skglm.C08
