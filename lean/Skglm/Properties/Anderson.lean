import Skglm.Model.Anderson
import Skglm.Real
import Skglm.Proofs.CD
/-
  The accelerator `skglm/utils/anderson.py` (model: `Skglm/Model/Anderson.lean`).

  (a) when a call extrapolates           `extrapolates_exactly_every_K_plus_two`
      (the requested period `K+1` is false of the code: `not_every_K_plus_one`)
  (b) the coefficients and the columns   `coefficients_sum_to_one`, `extrapolated_pair_affine`,
                                         `extrapolated_point_consistent`
  (c) `np.sum(z) = 0`                    `sum_zero_gives_non_finite`, `exact_solution_sum_pos`,
                                         `K_zero_extrapolates_to_zero`
  (d) the counter and the stale columns  `buffer_reset`
-/
namespace Skglm.AA
open Skglm

section Generic
variable {α : Type} [Scalar α] {d m : Nat}

/-! ### one call -/

theorem extrapolate_K (s : AAState α d m) (z : Option (List α)) (w : Fin d → α) (Xw : Fin m → α) :
    (aaExtrapolate s z w Xw).state.K = s.K := by
  unfold aaExtrapolate
  split_ifs
  · rfl
  · cases z <;> rfl

theorem extrapolate_len (s : AAState α d m) (z : Option (List α)) (w : Fin d → α) (Xw : Fin m → α) :
    (aaExtrapolate s z w Xw).state.buf.length = s.buf.length := by
  unfold aaExtrapolate
  split_ifs
  · simp [aaPush]
  · cases z <;> rfl

theorem extrapolate_cur (s : AAState α d m) (z : Option (List α)) (w : Fin d → α) (Xw : Fin m → α) :
    (aaExtrapolate s z w Xw).state.cur = if s.cur ≤ s.K then s.cur + 1 else 0 := by
  unfold aaExtrapolate
  split_ifs
  · rfl
  · cases z <;> rfl

/-- the flag is raised exactly when the counter has passed `K` and `solve` answered -/
theorem extrapolate_flag (s : AAState α d m) (z : Option (List α)) (w : Fin d → α) (Xw : Fin m → α) :
    (aaExtrapolate s z w Xw).extrapolated = true ↔ (¬ s.cur ≤ s.K) ∧ z.isSome = true := by
  unfold aaExtrapolate
  split_ifs with h
  · simp [h]
  · cases z <;> simp [h]

/-- a call that does not raise the flag returns its arguments -/
theorem extrapolate_unchanged (s : AAState α d m) (z : Option (List α)) (w : Fin d → α)
    (Xw : Fin m → α) (h : (aaExtrapolate s z w Xw).extrapolated = false) :
    (aaExtrapolate s z w Xw).w = w ∧ (aaExtrapolate s z w Xw).Xw = Xw := by
  unfold aaExtrapolate at h ⊢
  split_ifs with hc
  · exact ⟨rfl, rfl⟩
  · cases z with
    | none => exact ⟨rfl, rfl⟩
    | some z => rw [if_neg hc] at h; simp at h

/-! ### sequences of calls -/

theorem from_K (s₀ : AAState α d m) (inp : Nat → AAInput α d m) (k : Nat) :
    (aaFrom s₀ inp k).K = s₀.K := by
  induction k with
  | zero => rfl
  | succ k ih => rw [aaFrom, extrapolate_K, ih]

theorem from_len (s₀ : AAState α d m) (inp : Nat → AAInput α d m) (k : Nat) :
    (aaFrom s₀ inp k).buf.length = s₀.buf.length := by
  induction k with
  | zero => rfl
  | succ k ih => rw [aaFrom, extrapolate_len, ih]

/-- the counter cycles through `0, 1, …, K+1`: period `K + 2` -/
theorem from_cur (s₀ : AAState α d m) (inp : Nat → AAInput α d m) (h₀ : s₀.cur ≤ s₀.K + 1) (k : Nat) :
    (aaFrom s₀ inp k).cur = (s₀.cur + k) % (s₀.K + 2) := by
  induction k with
  | zero =>
    show s₀.cur = (s₀.cur + 0) % (s₀.K + 2)
    exact (Nat.mod_eq_of_lt (by omega)).symm
  | succ k ih =>
    rw [aaFrom, extrapolate_cur, from_K, ih]
    have hlt : (s₀.cur + k) % (s₀.K + 2) < s₀.K + 2 := Nat.mod_lt _ (by omega)
    have e : (s₀.cur + (k + 1)) % (s₀.K + 2) = ((s₀.cur + k) % (s₀.K + 2) + 1) % (s₀.K + 2) := by
      rw [← Nat.add_assoc, Nat.add_mod, Nat.mod_eq_of_lt (show 1 < s₀.K + 2 by omega)]
    rw [e]
    split_ifs with hc
    · exact (Nat.mod_eq_of_lt (by omega)).symm
    · have : (s₀.cur + k) % (s₀.K + 2) + 1 = s₀.K + 2 := by omega
      rw [this, Nat.mod_self]

theorem mod_succ_dvd (K k : Nat) : ¬ k % (K + 2) ≤ K ↔ (K + 2) ∣ k + 1 := by
  have hlt : k % (K + 2) < K + 2 := Nat.mod_lt _ (by omega)
  have e : (k + 1) % (K + 2) = (k % (K + 2) + 1) % (K + 2) := by
    rw [Nat.add_mod, Nat.mod_eq_of_lt (show 1 < K + 2 by omega)]
  constructor
  · intro h
    apply Nat.dvd_of_mod_eq_zero
    have : k % (K + 2) + 1 = K + 2 := by omega
    rw [e, this, Nat.mod_self]
  · intro h hle
    have h0 := Nat.mod_eq_zero_of_dvd h
    rw [e, Nat.mod_eq_of_lt (by omega)] at h0
    omega

/-- **(a)** From a fresh `AndersonAcceleration(K)`, whatever the arguments of the calls, the call
    number `k` (1-based; its arguments are `inp (k-1)`) returns `is_extrapolated = True` iff
    `K + 2` divides `k` and `np.linalg.solve` did not raise; every other call returns its arguments
    unchanged.  (`K + 1` calls fill the `K + 1` columns; the call after them extrapolates.) -/
theorem extrapolates_exactly_every_K_plus_two (K : Nat) (inp : Nat → AAInput α d m) (k : Nat) :
    ((aaCall K inp k).extrapolated = true ↔ (K + 2) ∣ (k + 1) ∧ (inp k).z.isSome = true) ∧
    ((aaCall K inp k).extrapolated = false →
      (aaCall K inp k).w = (inp k).w ∧ (aaCall K inp k).Xw = (inp k).Xw) := by
  refine ⟨?_, fun h => extrapolate_unchanged _ _ _ _ h⟩
  unfold aaCall aaCallFrom
  rw [extrapolate_flag, from_K, from_cur _ _ (by simp [aaInit])]
  simp only [aaInit, Nat.zero_add]
  rw [mod_succ_dvd]

/-- The period is **not** `K + 1`: whatever `K` and the arguments, the call number `K + 1` never
    extrapolates (it writes the last column), and the call number `K + 2` does as soon as `solve`
    answers. -/
theorem call_K_plus_one_never_extrapolates (K : Nat) (inp : Nat → AAInput α d m) :
    (aaCall K inp K).extrapolated = false ∧
    ((inp (K + 1)).z.isSome = true → (aaCall K inp (K + 1)).extrapolated = true) := by
  constructor
  · rw [← Bool.not_eq_true, (extrapolates_exactly_every_K_plus_two K inp K).1]
    rintro ⟨h, _⟩
    have := Nat.le_of_dvd (by omega) h
    omega
  · intro hz
    exact ((extrapolates_exactly_every_K_plus_two K inp (K + 1)).1).2 ⟨Nat.dvd_refl _, hz⟩

/-- the statement "the `k`-th call extrapolates iff `(K+1) ∣ k` and `solve` succeeded" is false of
    the code (witness `K = 2`: the third call does not extrapolate although `solve` would succeed) -/
theorem not_every_K_plus_one :
    ¬ (∀ (K : Nat) (inp : Nat → AAInput α 1 1) (k : Nat),
        (aaCall K inp k).extrapolated = true ↔ (K + 1) ∣ (k + 1) ∧ (inp k).z.isSome = true) := by
  intro h
  have h1 := (h 2 (fun _ => { z := some [], w := fun _ => 0, Xw := fun _ => 0 }) 2).2
    ⟨Nat.dvd_refl _, rfl⟩
  have h2 := (call_K_plus_one_never_extrapolates 2
    (fun _ => ({ z := some [], w := fun _ => 0, Xw := fun _ => 0 } : AAInput α 1 1))).1
  rw [h1] at h2
  exact Bool.noConfusion h2

/-- the arguments of an extrapolating call are neither buffered nor used: the result only depends on
    the buffer and on `z` -/
theorem extrapolating_call_ignores_its_arguments (s : AAState α d m) (z : List α)
    (w w' : Fin d → α) (Xw Xw' : Fin m → α) (h : ¬ s.cur ≤ s.K) :
    aaExtrapolate s (some z) w Xw = aaExtrapolate s (some z) w' Xw' := by
  unfold aaExtrapolate
  rw [if_neg h, if_neg h]

/-! ### (d) the counter restarts and every column is overwritten before the next extrapolation -/

/-- while the buffer fills from an empty counter: after `k ≤ K + 1` calls the counter is `k` and the
    columns `0..k-1` hold the arguments of these calls, in order -/
theorem fill (s₀ : AAState α d m) (inp : Nat → AAInput α d m) (h₀ : s₀.cur = 0)
    (hlen : s₀.buf.length = s₀.K + 1) (k : Nat) (hk : k ≤ s₀.K + 1) :
    (aaFrom s₀ inp k).cur = k ∧
    (∀ i, i < k → (aaFrom s₀ inp k).buf[i]? = some ((inp i).w, (inp i).Xw)) ∧
    (∀ i, i < k → (aaCallFrom s₀ inp i).extrapolated = false) := by
  induction k with
  | zero => exact ⟨h₀, fun i hi => absurd hi (Nat.not_lt_zero _), fun i hi => absurd hi (Nat.not_lt_zero _)⟩
  | succ k ih =>
    obtain ⟨hc, hb, hf⟩ := ih (by omega)
    have hle : (aaFrom s₀ inp k).cur ≤ (aaFrom s₀ inp k).K := by rw [hc, from_K]; omega
    have hst : aaFrom s₀ inp (k + 1) = aaPush (aaFrom s₀ inp k) (inp k).w (inp k).Xw := by
      rw [aaFrom]; unfold aaExtrapolate; rw [if_pos hle]
    refine ⟨?_, ?_, ?_⟩
    · rw [hst]; simp [aaPush, hc]
    · intro i hi
      rw [hst]
      simp only [aaPush, hc]
      rw [List.getElem?_set]
      by_cases hik : k = i
      · subst hik
        have : k < (aaFrom s₀ inp k).buf.length := by rw [from_len, hlen]; omega
        simp [this]
      · rw [if_neg hik]; exact hb i (by omega)
    · intro i hi
      by_cases hik : i = k
      · subst hik
        unfold aaCallFrom aaExtrapolate
        rw [if_pos hle]
      · exact hf i (by omega)

/-- … and once `K + 1` calls have been made the buffer is exactly their arguments, in order -/
theorem fill_full (s₀ : AAState α d m) (inp : Nat → AAInput α d m) (h₀ : s₀.cur = 0)
    (hlen : s₀.buf.length = s₀.K + 1) :
    (aaFrom s₀ inp (s₀.K + 1)).buf
      = List.ofFn (fun i : Fin (s₀.K + 1) => ((inp i).w, (inp i).Xw)) := by
  obtain ⟨_, hb, _⟩ := fill s₀ inp h₀ hlen (s₀.K + 1) (Nat.le_refl _)
  apply List.ext_getElem?
  intro i
  by_cases hi : i < s₀.K + 1
  · rw [hb i hi, List.getElem?_ofFn, dif_pos hi]
  · have h1 : (aaFrom s₀ inp (s₀.K + 1)).buf.length ≤ i := by rw [from_len, hlen]; omega
    rw [List.getElem?_eq_none h1, List.getElem?_eq_none (by simpa using Nat.le_of_not_lt hi)]

/-- **(d)** After a call that reaches `solve` (whether it extrapolates or falls back on
    `LinAlgError`) the counter is `0`; the next `K + 1` calls return their arguments unchanged and
    only fill the buffer; after them the buffer consists of *exactly* the arguments of these
    `K + 1` calls, in order — every column written before the reset has been overwritten — and the
    call after them reaches `solve` again. -/
theorem buffer_reset (s : AAState α d m) (z : Option (List α)) (w : Fin d → α) (Xw : Fin m → α)
    (hcur : ¬ s.cur ≤ s.K) (hlen : s.buf.length = s.K + 1) (inp : Nat → AAInput α d m) :
    let s' := (aaExtrapolate s z w Xw).state
    s'.cur = 0 ∧
    (∀ i, i ≤ s.K → (aaCallFrom s' inp i).extrapolated = false ∧
        (aaCallFrom s' inp i).w = (inp i).w ∧ (aaCallFrom s' inp i).Xw = (inp i).Xw) ∧
    (aaFrom s' inp (s.K + 1)).buf = List.ofFn (fun i : Fin (s.K + 1) => ((inp i).w, (inp i).Xw)) ∧
    ((aaCallFrom s' inp (s.K + 1)).extrapolated = true ↔ (inp (s.K + 1)).z.isSome = true) := by
  intro s'
  have hc' : s'.cur = 0 := by
    show (aaExtrapolate s z w Xw).state.cur = 0
    rw [extrapolate_cur, if_neg hcur]
  have hK' : s'.K = s.K := extrapolate_K _ _ _ _
  have hl' : s'.buf.length = s'.K + 1 := by
    rw [hK']; show (aaExtrapolate s z w Xw).state.buf.length = _
    rw [extrapolate_len, hlen]
  obtain ⟨hc, hb, hf⟩ := fill s' inp hc' hl' (s.K + 1) (by omega)
  refine ⟨hc', fun i hi => ?_, ?_, ?_⟩
  · have := hf i (by omega)
    exact ⟨this, extrapolate_unchanged _ _ _ _ this⟩
  · have := fill_full s' inp hc' hl'
    rw [hK'] at this
    exact this
  · unfold aaCallFrom
    rw [extrapolate_flag, hc, from_K, hK']
    simp

end Generic

/-! ### the model's list operations on ℝ -/

section Real
variable {d m n p K : Nat}

theorem lsum_eq (l : List ℝ) : lsum l = l.sum := by
  unfold lsum; exact List.sum_eq_foldl.symm

theorem zipWith_ofFn {β γ δ : Type} {K : Nat} (g : β → γ → δ) (a : Fin K → β) (b : Fin K → γ) :
    List.zipWith g (List.ofFn a) (List.ofFn b) = List.ofFn (fun k => g (a k) (b k)) := by
  induction K with
  | zero => simp
  | succ K ih =>
    rw [List.ofFn_succ, List.ofFn_succ (f := b), List.ofFn_succ (f := fun k => g (a k) (b k)),
      List.zipWith_cons_cons, ih]

theorem drop_one_ofFn {β : Type} {K : Nat} (f : Fin (K + 1) → β) :
    (List.ofFn f).drop 1 = List.ofFn (fun k : Fin K => f k.succ) := by
  rw [List.ofFn_succ]; rfl

theorem coefs_ofFn (zf : Fin K → ℝ) :
    aaCoefs (List.ofFn zf) = List.ofFn (fun k => zf k / ∑ i, zf i) := by
  unfold aaCoefs
  simp only [lsum_eq, List.sum_ofFn, List.map_ofFn]
  rfl

theorem combine_ofFn (c : Fin K → ℝ) (cols : Fin K → Fin d → ℝ) (j : Fin d) :
    aaCombine (List.ofFn c) (List.ofFn cols) j = ∑ k, c k * cols k j := by
  unfold aaCombine
  rw [mat_eq, zipWith_ofFn, lsum_eq, List.sum_ofFn]

/-- `C = z / np.sum(z)` sums to one as soon as `np.sum(z) ≠ 0` (list form) -/
theorem coefs_sum_one (z : List ℝ) (hz : lsum z ≠ 0) : lsum (aaCoefs z) = 1 := by
  obtain ⟨N, zf, rfl⟩ : ∃ (N : Nat) (zf : Fin N → ℝ), z = List.ofFn zf :=
    ⟨_, _, (List.ofFn_get z).symm⟩
  rw [lsum_eq, List.sum_ofFn] at hz
  rw [coefs_ofFn, lsum_eq, List.sum_ofFn, ← Finset.sum_div, div_self hz]

/-! ### (b) the coefficients, the columns, consistency -/

/-- the coefficients `C` for the answer `zf` of `solve` -/
noncomputable def coef (zf : Fin K → ℝ) : Fin K → ℝ := fun k => zf k / ∑ i, zf i

/-- the extrapolating branch, on a buffer given column by column -/
theorem extrapolate_ofFn (s : AAState ℝ d m) (cols : Fin (K + 1) → AAPair ℝ d m) (zf : Fin K → ℝ)
    (w : Fin d → ℝ) (Xw : Fin m → ℝ) (hcur : ¬ s.cur ≤ s.K) (hbuf : s.buf = List.ofFn cols) :
    (aaExtrapolate s (some (List.ofFn zf)) w Xw).extrapolated = true ∧
    (aaExtrapolate s (some (List.ofFn zf)) w Xw).state.cur = 0 ∧
    (∀ j, (aaExtrapolate s (some (List.ofFn zf)) w Xw).w j
        = ∑ k : Fin K, coef zf k * (cols k.succ).1 j) ∧
    (∀ i, (aaExtrapolate s (some (List.ofFn zf)) w Xw).Xw i
        = ∑ k : Fin K, coef zf k * (cols k.succ).2 i) := by
  unfold aaExtrapolate
  rw [if_neg hcur]
  refine ⟨rfl, rfl, fun j => ?_, fun i => ?_⟩
  · show aaCombine (aaCoefs (List.ofFn zf)) ((s.buf.drop 1).map Prod.fst) j = _
    rw [hbuf, drop_one_ofFn, List.map_ofFn, coefs_ofFn, combine_ofFn]
    rfl
  · show aaCombine (aaCoefs (List.ofFn zf)) ((s.buf.drop 1).map Prod.snd) i = _
    rw [hbuf, drop_one_ofFn, List.map_ofFn, coefs_ofFn, combine_ofFn]
    rfl

/-- **(b)** When the call extrapolates and `np.sum(z) ≠ 0`: the coefficients `C = z / np.sum(z)` sum
    to one, and the returned `w` (resp. `Xw`) is `Σ_k C_k · arr_w_[:, k+1]` (resp. `arr_Xw_[:, k+1]`),
    `k = 0..K-1`: the *last* `K` of the `K+1` buffered columns, column `0` only enters through `U`
    (i.e. through `z`), and the arguments `w, Xw` of the call do not enter at all. -/
theorem coefficients_sum_to_one (s : AAState ℝ d m) (cols : Fin (K + 1) → AAPair ℝ d m)
    (zf : Fin K → ℝ) (w : Fin d → ℝ) (Xw : Fin m → ℝ) (hcur : ¬ s.cur ≤ s.K)
    (hbuf : s.buf = List.ofFn cols) (hz : ∑ k, zf k ≠ 0) :
    lsum (aaCoefs (List.ofFn zf)) = 1 ∧ aaCoefs (List.ofFn zf) = List.ofFn (coef zf) ∧
    ∑ k, coef zf k = 1 ∧
    (aaExtrapolate s (some (List.ofFn zf)) w Xw).extrapolated = true ∧
    (∀ j, (aaExtrapolate s (some (List.ofFn zf)) w Xw).w j
        = ∑ k : Fin K, coef zf k * (cols k.succ).1 j) ∧
    (∀ i, (aaExtrapolate s (some (List.ofFn zf)) w Xw).Xw i
        = ∑ k : Fin K, coef zf k * (cols k.succ).2 i) := by
  obtain ⟨h1, _, h3, h4⟩ := extrapolate_ofFn s cols zf w Xw hcur hbuf
  refine ⟨coefs_sum_one _ (by rwa [lsum_eq, List.sum_ofFn]), coefs_ofFn zf, ?_, h1, h3, h4⟩
  unfold coef
  rw [← Finset.sum_div, div_self hz]

/-- If each of the columns `1..K` is a pair with `Xw_k = A w_k + r` for one matrix `A` and one
    offset `r` (AndersonCD: `A` = the working-set columns of `X` and the column of ones, `r` = the
    contribution of the features outside the working set; GramCD: `A` = the scaled Gram matrix,
    `r = -Xᵀy/n`), and `np.sum(z) ≠ 0`, then the returned pair satisfies `Xw = A w + r`.
    Column `0` need not be such a pair. -/
theorem extrapolated_pair_affine (s : AAState ℝ d m) (cols : Fin (K + 1) → AAPair ℝ d m)
    (zf : Fin K → ℝ) (w : Fin d → ℝ) (Xw : Fin m → ℝ) (hcur : ¬ s.cur ≤ s.K)
    (hbuf : s.buf = List.ofFn cols) (hz : ∑ k, zf k ≠ 0)
    (A : Fin m → Fin d → ℝ) (r : Fin m → ℝ)
    (hpair : ∀ (k : Fin K) i, (cols k.succ).2 i = (∑ j, A i j * (cols k.succ).1 j) + r i) (i : Fin m) :
    (aaExtrapolate s (some (List.ofFn zf)) w Xw).Xw i
      = (∑ j, A i j * (aaExtrapolate s (some (List.ofFn zf)) w Xw).w j) + r i := by
  obtain ⟨_, _, hsum, _, hw, hXw⟩ := coefficients_sum_to_one s cols zf w Xw hcur hbuf hz
  rw [hXw]
  simp only [hw, hpair]
  have : ∑ k, coef zf k * r i = r i := by rw [← Finset.sum_mul, hsum, one_mul]
  simp only [mul_add, Finset.sum_add_distrib, this, Finset.mul_sum]
  rw [Finset.sum_comm]
  congr 1
  apply Finset.sum_congr rfl; intro k _
  apply Finset.sum_congr rfl; intro j _
  ring

/-- the linear case (`r = 0`) needs no hypothesis on `np.sum(z)` in the real model -/
theorem extrapolated_pair_linear (s : AAState ℝ d m) (cols : Fin (K + 1) → AAPair ℝ d m)
    (zf : Fin K → ℝ) (w : Fin d → ℝ) (Xw : Fin m → ℝ) (hcur : ¬ s.cur ≤ s.K)
    (hbuf : s.buf = List.ofFn cols) (A : Fin m → Fin d → ℝ)
    (hpair : ∀ (k : Fin K) i, (cols k.succ).2 i = ∑ j, A i j * (cols k.succ).1 j) (i : Fin m) :
    (aaExtrapolate s (some (List.ofFn zf)) w Xw).Xw i
      = ∑ j, A i j * (aaExtrapolate s (some (List.ofFn zf)) w Xw).w j := by
  obtain ⟨_, _, hw, hXw⟩ := extrapolate_ofFn s cols zf w Xw hcur hbuf
  rw [hXw]
  simp only [hw, hpair, Finset.mul_sum]
  rw [Finset.sum_comm]
  apply Finset.sum_congr rfl; intro j _
  apply Finset.sum_congr rfl; intro k _
  ring

/-! ### … for AndersonCD: the returned pair *is* `CDProb.extrapPoint`, and it is `Consistent` -/

open Skglm.Spec in
/-- what AndersonCD hands to the accelerator when `fit_intercept=True`: `w[ws_intercept]` (the
    working-set coefficients `ws 0, …, ws (d-1)` followed by the intercept) and `Xw` -/
def encodeInt (ws : Fin d → Fin p) (s : CDState ℝ n p) : AAPair ℝ (d + 1) n :=
  (Fin.snoc (α := fun _ => ℝ) (fun a => s.w (ws a)) s.b, s.Xw)

/-- … and when `fit_intercept=False`: `w[ws]` and `Xw` -/
def encodeNoInt (ws : Fin d → Fin p) (s : CDState ℝ n p) : AAPair ℝ d n :=
  (fun a => s.w (ws a), s.Xw)

open Skglm.Spec Skglm.Proofs in
/-- **(b), corollary for AndersonCD (`fit_intercept=True`).**  The buffer holds the encodings of the
    `K+1` states `st 0, …, st K` reached after the last `K+1` epochs.  If the states `st 1, …, st K`
    are consistent (`Xw = X w + b`) and agree with the current state outside the working set, and
    `np.sum(z) ≠ 0`, then what `extrapolate` returns is exactly the encoding of the model's
    `CDProb.extrapPoint` for the coefficients `C` on `st 1, …, st K` — so that
    `w_acc[:] = w; w_acc[ws_intercept], Xw_acc[:] = …` builds that state — and this state is
    consistent.  Nothing is asked of `st 0`, nor of the state passed to the extrapolating call. -/
theorem extrapolated_point_consistent (P : CDProb ℝ n p) (ws : Fin d → Fin p) (inWs : Fin p → Bool)
    (hws : ∀ a, inWs (ws a) = true) (cur : CDState ℝ n p) (st : Fin (K + 1) → CDState ℝ n p)
    (s : AAState ℝ (d + 1) n) (zf : Fin K → ℝ) (w : Fin (d + 1) → ℝ) (Xw : Fin n → ℝ)
    (hcur : ¬ s.cur ≤ s.K) (hbuf : s.buf = List.ofFn (fun k => encodeInt ws (st k)))
    (hz : ∑ k, zf k ≠ 0) (hcons : ∀ k : Fin K, Consistent P (st k.succ))
    (hout : ∀ (k : Fin K) j, inWs j = false → (st k.succ).w j = cur.w j) :
    (aaExtrapolate s (some (List.ofFn zf)) w Xw).extrapolated = true ∧
    ((aaExtrapolate s (some (List.ofFn zf)) w Xw).w, (aaExtrapolate s (some (List.ofFn zf)) w Xw).Xw)
      = encodeInt ws (CDProb.extrapPoint inWs cur (fun k => st k.succ) (coef zf)) ∧
    Consistent P (CDProb.extrapPoint inWs cur (fun k => st k.succ) (coef zf)) := by
  obtain ⟨_, _, hsum, hflag, hw, hXw⟩ := coefficients_sum_to_one s _ zf w Xw hcur hbuf hz
  refine ⟨hflag, ?_, extrapPoint_consistent P inWs cur _ _ hsum hcons hout⟩
  unfold encodeInt
  refine Prod.ext ?_ ?_
  · funext a
    show (aaExtrapolate s (some (List.ofFn zf)) w Xw).w a = _
    rw [hw]
    refine Fin.lastCases ?_ (fun a => ?_) a
    · simp [encodeInt, CDProb.extrapPoint, vsum_eq]
    · simp [encodeInt, CDProb.extrapPoint, vsum_eq, hws]
  · funext i
    show (aaExtrapolate s (some (List.ofFn zf)) w Xw).Xw i = _
    rw [hXw]
    simp [encodeInt, CDProb.extrapPoint, vsum_eq]

open Skglm.Spec Skglm.Proofs in
/-- the same with `fit_intercept=False` (only `w[ws]` is passed; the intercept entry of the model's
    state is the common value of the buffered states' — `0` in the solver) -/
theorem extrapolated_point_consistent_no_intercept (P : CDProb ℝ n p) (ws : Fin d → Fin p)
    (inWs : Fin p → Bool) (hws : ∀ a, inWs (ws a) = true) (cur : CDState ℝ n p)
    (st : Fin (K + 1) → CDState ℝ n p)
    (s : AAState ℝ d n) (zf : Fin K → ℝ) (w : Fin d → ℝ) (Xw : Fin n → ℝ)
    (hcur : ¬ s.cur ≤ s.K) (hbuf : s.buf = List.ofFn (fun k => encodeNoInt ws (st k)))
    (hz : ∑ k, zf k ≠ 0) (hcons : ∀ k : Fin K, Consistent P (st k.succ))
    (hout : ∀ (k : Fin K) j, inWs j = false → (st k.succ).w j = cur.w j) :
    (aaExtrapolate s (some (List.ofFn zf)) w Xw).extrapolated = true ∧
    ((aaExtrapolate s (some (List.ofFn zf)) w Xw).w, (aaExtrapolate s (some (List.ofFn zf)) w Xw).Xw)
      = encodeNoInt ws (CDProb.extrapPoint inWs cur (fun k => st k.succ) (coef zf)) ∧
    Consistent P (CDProb.extrapPoint inWs cur (fun k => st k.succ) (coef zf)) := by
  obtain ⟨_, _, hsum, hflag, hw, hXw⟩ := coefficients_sum_to_one s _ zf w Xw hcur hbuf hz
  refine ⟨hflag, ?_, extrapPoint_consistent P inWs cur _ _ hsum hcons hout⟩
  unfold encodeNoInt
  refine Prod.ext ?_ ?_
  · funext a
    show (aaExtrapolate s (some (List.ofFn zf)) w Xw).w a = _
    rw [hw]
    simp [encodeNoInt, CDProb.extrapPoint, vsum_eq, hws]
  · funext i
    show (aaExtrapolate s (some (List.ofFn zf)) w Xw).Xw i = _
    rw [hXw]
    simp [encodeNoInt, CDProb.extrapPoint, vsum_eq]

/-! ### (c) `np.sum(z) = 0` -/

theorem combine_zero {d : Nat} (z : List ℝ) (cols : List (Fin d → ℝ)) :
    aaCombine (z.map (fun _ => (0 : ℝ))) cols = fun _ => 0 := by
  funext j
  unfold aaCombine
  rw [mat_eq, lsum_eq]
  induction z generalizing cols with
  | nil => simp
  | cons a z ih =>
    cases cols with
    | nil => simp
    | cons c cols => simpa using ih cols

/-- **(c)** What the model returns when `np.sum(z) = 0`.  The code divides by zero without looking:
    in floating point `C` is made of `±inf` / `nan` (numpy only emits a `RuntimeWarning`), the
    returned pair is non-finite and it is flagged `is_extrapolated=True`.  Over ℝ, where `x / 0 = 0`,
    the same expression gives `C = 0`, hence the returned pair is the *zero* pair, still flagged as
    extrapolated; the coefficients sum to `0`, not `1`. -/
theorem sum_zero_gives_non_finite (s : AAState ℝ d m) (z : List ℝ) (w : Fin d → ℝ) (Xw : Fin m → ℝ)
    (hcur : ¬ s.cur ≤ s.K) (hz : lsum z = 0) :
    aaCoefs z = z.map (fun _ => 0) ∧ lsum (aaCoefs z) = 0 ∧
    (aaExtrapolate s (some z) w Xw).extrapolated = true ∧
    (aaExtrapolate s (some z) w Xw).w = (fun _ => 0) ∧
    (aaExtrapolate s (some z) w Xw).Xw = (fun _ => 0) := by
  have hC : aaCoefs z = z.map (fun _ => 0) := by
    unfold aaCoefs; simp only [hz, div_zero]
  refine ⟨hC, ?_, ?_, ?_, ?_⟩
  · rw [hC, lsum_eq]; simp
  · unfold aaExtrapolate; rw [if_neg hcur]
  · unfold aaExtrapolate; rw [if_neg hcur]
    show aaCombine (aaCoefs z) _ = _
    rw [hC, combine_zero]
  · unfold aaExtrapolate; rw [if_neg hcur]
    show aaCombine (aaCoefs z) _ = _
    rw [hC, combine_zero]

/-- witness (`K = 2`): a full buffer of pairs on the line `Xw = w + 1`, and an answer `z = (1, -1)`
    of zero sum: the pair returned (flagged as extrapolated) is `(0, 0)`, which is not on the line.
    This `z` is *not* the exact solution of the system — see `exact_solution_sum_pos`: it stands for
    a computed `z` whose entries cancel. -/
theorem sum_zero_witness :
    ∃ (s : AAState ℝ 1 1) (z : List ℝ), s.K = 2 ∧ s.cur = 3 ∧ s.buf.length = 3 ∧
      (∀ c ∈ s.buf, ∀ i, c.2 i = c.1 i + 1) ∧ lsum z = 0 ∧
      (aaExtrapolate s (some z) (fun _ => 5) (fun _ => 6)).extrapolated = true ∧
      ¬ (∀ i, (aaExtrapolate s (some z) (fun _ => 5) (fun _ => 6)).Xw i
            = (aaExtrapolate s (some z) (fun _ => 5) (fun _ => 6)).w i + 1) := by
  refine ⟨{ K := 2, cur := 3, buf := [(fun _ => 0, fun _ => 1), (fun _ => 1, fun _ => 2),
      (fun _ => 3, fun _ => 4)] }, [1, -1], rfl, rfl, rfl, ?_, ?_, ?_, ?_⟩
  · intro c hc i
    simp only [List.mem_cons, List.not_mem_nil, or_false] at hc
    rcases hc with rfl | rfl | rfl <;> norm_num
  · rw [lsum_eq]; norm_num
  · exact (sum_zero_gives_non_finite _ _ _ _ (by simp) (by rw [lsum_eq]; norm_num)).2.2.1
  · intro h
    have h0 := h 0
    obtain ⟨_, _, _, hw, hXw⟩ := sum_zero_gives_non_finite
      ({ K := 2, cur := 3, buf := [(fun _ => 0, fun _ => 1), (fun _ => 1, fun _ => 2),
        (fun _ => 3, fun _ => 4)] } : AAState ℝ 1 1) [1, -1] (fun _ => 5) (fun _ => 6)
      (by simp) (by rw [lsum_eq]; norm_num)
    rw [hw, hXw] at h0
    norm_num at h0

/-- With the *exact* solution of `UᵀU z = 1` the case cannot occur as soon as `K ≥ 1`: for any matrix
    `U` (no rank hypothesis), `Σ z = zᵀ 1 = zᵀ UᵀU z = ‖U z‖² ≥ 0`, and `‖U z‖ = 0` would give
    `UᵀU z = 0 ≠ 1`. -/
theorem exact_solution_sum_pos_matrix (U : Fin K → Fin d → ℝ) (z : Fin K → ℝ) (hK : 0 < K)
    (h : ∀ a, ∑ b, (∑ j, U a j * U b j) * z b = 1) : 0 < ∑ a, z a := by
  have hG : ∀ a, ∑ b, (∑ j, U a j * U b j) * z b = ∑ j, U a j * ∑ b, z b * U b j := by
    intro a
    simp only [Finset.sum_mul, Finset.mul_sum]
    rw [Finset.sum_comm]
    apply Finset.sum_congr rfl; intro j _
    apply Finset.sum_congr rfl; intro b _
    ring
  have e : ∑ a, z a = ∑ j, (∑ a, z a * U a j) ^ 2 := by
    calc ∑ a, z a = ∑ a, z a * ∑ j, U a j * ∑ b, z b * U b j := by
          apply Finset.sum_congr rfl; intro a _
          rw [← hG a, h a, mul_one]
      _ = ∑ j, (∑ a, z a * U a j) ^ 2 := by
          simp only [Finset.mul_sum]
          rw [Finset.sum_comm]
          apply Finset.sum_congr rfl; intro j _
          rw [sq, Finset.sum_mul]
          apply Finset.sum_congr rfl; intro a _
          simp only [Finset.mul_sum]
          apply Finset.sum_congr rfl; intro b _
          ring
  have hnn : 0 ≤ ∑ j, (∑ a, z a * U a j) ^ 2 := Finset.sum_nonneg (fun j _ => sq_nonneg _)
  rw [e]
  rcases hnn.lt_or_eq with hpos | h0
  · exact hpos
  · exfalso
    have hv : ∀ j, ∑ a, z a * U a j = 0 := by
      intro j
      have := (Finset.sum_eq_zero_iff_of_nonneg (fun j _ => sq_nonneg _)).mp h0.symm j (Finset.mem_univ _)
      exact pow_eq_zero_iff (two_ne_zero) |>.mp this
    have h1 := h ⟨0, hK⟩
    rw [hG] at h1
    simp [hv] at h1

/-- `z` solves `G z = (1, …, 1)`, `G` given by its rows -/
def Solves (G : List (List ℝ)) (z : List ℝ) : Prop :=
  z.length = G.length ∧ ∀ row ∈ G, lsum (List.zipWith (fun g x => g * x) row z) = 1

theorem zipWith_ofFn_shift {β γ : Type} {K : Nat} (g : β → β → γ) (c : Fin (K + 1) → β) :
    List.zipWith g (List.ofFn c) (List.ofFn (fun k : Fin K => c k.succ))
      = List.ofFn (fun k : Fin K => g (c k.castSucc) (c k.succ)) := by
  induction K with
  | zero => simp
  | succ K ih =>
    have e2 : List.ofFn (fun k : Fin (K + 1) => c k.succ)
        = c (0 : Fin (K + 1)).succ :: List.ofFn (fun k : Fin K => c k.succ.succ) := List.ofFn_succ
    have h := ih (fun k => c k.succ)
    rw [List.ofFn_succ (f := c),
      List.ofFn_succ (f := fun k : Fin (K + 1) => g (c k.castSucc) (c k.succ))]
    conv_lhs => arg 3; rw [e2]
    rw [List.zipWith_cons_cons, h]
    rfl

/-- the model's `U` and `UᵀU` on a buffer given column by column -/
theorem gram_ofFn (s : AAState ℝ d m) (cols : Fin (K + 1) → AAPair ℝ d m)
    (hbuf : s.buf = List.ofFn cols) :
    aaResiduals s = List.ofFn (fun k : Fin K => fun j => (cols k.succ).1 j - (cols k.castSucc).1 j) ∧
    aaGram s = List.ofFn (fun a : Fin K => List.ofFn (fun b : Fin K =>
      ∑ j, ((cols a.succ).1 j - (cols a.castSucc).1 j) * ((cols b.succ).1 j - (cols b.castSucc).1 j))) := by
  have hU : aaResiduals s
      = List.ofFn (fun k : Fin K => fun j => (cols k.succ).1 j - (cols k.castSucc).1 j) := by
    unfold aaResiduals
    rw [hbuf, drop_one_ofFn, zipWith_ofFn_shift]
  refine ⟨hU, ?_⟩
  unfold aaGram
  simp only [hU, List.map_ofFn]
  congr 1
  funext a
  simp only [Function.comp_apply]
  congr 1
  funext b
  simp only [Function.comp_apply, dot_eq]

/-- **(c), exact arithmetic.**  If `z` is an exact solution of the system the code hands to
    `np.linalg.solve` (`U.T @ U` of the model's buffer, right-hand side `np.ones(K)`) and `K ≥ 1`,
    then `np.sum(z) > 0`: the division is safe and `coefficients_sum_to_one` applies. -/
theorem exact_solution_sum_pos (s : AAState ℝ d m) (z : List ℝ) (hlen : s.buf.length = s.K + 1)
    (hK : 0 < s.K) (h : Solves (aaGram s) z) : 0 < lsum z := by
  obtain ⟨N, cols, hbuf⟩ : ∃ (N : Nat) (cols : Fin N → AAPair ℝ d m), s.buf = List.ofFn cols :=
    ⟨_, _, (List.ofFn_get s.buf).symm⟩
  obtain rfl : N = s.K + 1 := by rw [hbuf, List.length_ofFn] at hlen; exact hlen
  obtain ⟨_, hG⟩ := gram_ofFn s cols hbuf
  obtain ⟨N', zf, rfl⟩ : ∃ (N : Nat) (zf : Fin N → ℝ), z = List.ofFn zf :=
    ⟨_, _, (List.ofFn_get z).symm⟩
  obtain ⟨hl, hrows⟩ := h
  rw [hG] at hl hrows
  obtain rfl : N' = s.K := by simpa using hl
  rw [List.forall_mem_ofFn_iff] at hrows
  rw [lsum_eq, List.sum_ofFn]
  refine exact_solution_sum_pos_matrix
    (fun k j => (cols k.succ).1 j - (cols k.castSucc).1 j) zf hK (fun a => ?_)
  have := hrows a
  rwa [zipWith_ofFn, lsum_eq, List.sum_ofFn] at this

/-- … whereas for `K = 0` (a legal argument of `__init__`; the solvers hard-code `K = 5`) the
    system is `0 × 0`, its solution is the empty array, `np.sum` of it is `0`, and every second
    call returns the **zero** vectors flagged `is_extrapolated=True` (`(d, 0) @ (0,)` is
    `np.zeros(d)`; no warning is emitted since nothing is divided). -/
theorem K_zero_extrapolates_to_zero (s : AAState ℝ d m) (w : Fin d → ℝ) (Xw : Fin m → ℝ)
    (hK : s.K = 0) (hcur : ¬ s.cur ≤ s.K) (hlen : s.buf.length = s.K + 1) :
    aaGram s = [] ∧ Solves (aaGram s) [] ∧
    (aaExtrapolate s (some []) w Xw).extrapolated = true ∧
    (aaExtrapolate s (some []) w Xw).w = (fun _ => 0) ∧
    (aaExtrapolate s (some []) w Xw).Xw = (fun _ => 0) := by
  have hG : aaGram s = [] := by
    rw [hK] at hlen
    obtain ⟨c, hc⟩ := List.length_eq_one_iff.mp hlen
    simp [aaGram, aaResiduals, hc]
  obtain ⟨_, _, h3, h4, h5⟩ := sum_zero_gives_non_finite s [] w Xw hcur (by simp [lsum])
  exact ⟨hG, by rw [hG]; exact ⟨rfl, by simp⟩, h3, h4, h5⟩

/-! ### end to end on a fresh object, and non-vacuity (`K = 2`) -/

/-- From a fresh `AndersonAcceleration(K)`: the call number `K + 2` (arguments `inp (K+1)`), when
    `solve` answers `zf` with `Σ zf ≠ 0`, returns `Σ_k C_k · w⁽ᵏ⁺²⁾`, `k = 0..K-1`, where `w⁽ⁱ⁾` is the
    argument of the call number `i`: the iterates of the calls `2, …, K+1`.  The iterate of the
    first call only enters through `z`; the iterate passed to the extrapolating call is dropped. -/
theorem first_extrapolation (inp : Nat → AAInput ℝ d m) (zf : Fin K → ℝ)
    (hz : (inp (K + 1)).z = some (List.ofFn zf)) (hsum : ∑ k, zf k ≠ 0) :
    (aaCall K inp (K + 1)).extrapolated = true ∧ ∑ k, coef zf k = 1 ∧
    (∀ j, (aaCall K inp (K + 1)).w j = ∑ k : Fin K, coef zf k * (inp (k.1 + 1)).w j) ∧
    (∀ i, (aaCall K inp (K + 1)).Xw i = ∑ k : Fin K, coef zf k * (inp (k.1 + 1)).Xw i) := by
  have hbuf := fill_full (aaInit K : AAState ℝ d m) inp rfl (by simp [aaInit])
  have hcur := (fill (aaInit K : AAState ℝ d m) inp rfl (by simp [aaInit]) (K + 1) (Nat.le_refl _)).1
  have hK := from_K (aaInit K : AAState ℝ d m) inp (K + 1)
  have hnot : ¬ (aaFrom (aaInit K : AAState ℝ d m) inp (K + 1)).cur
      ≤ (aaFrom (aaInit K : AAState ℝ d m) inp (K + 1)).K := by
    rw [hcur, hK]; simp [aaInit]
  obtain ⟨_, _, h1, h2, h3, h4⟩ := coefficients_sum_to_one
    (aaFrom (aaInit K : AAState ℝ d m) inp (K + 1))
    (fun i : Fin (K + 1) => ((inp i).w, (inp i).Xw)) zf (inp (K + 1)).w (inp (K + 1)).Xw hnot hbuf hsum
  unfold aaCall aaCallFrom
  rw [hz]
  exact ⟨h2, h1, h3, h4⟩

/-- the iterates of the example: `w⁽¹⁾ = (0,0)`, `w⁽²⁾ = (1,0)`, `w⁽³⁾ = (1,1)`, then `(9,9)`;
    `Xw = w₀ + w₁ + 1`; the exact solution of `UᵀU z = 1` (here `UᵀU = I₂`) is `z = (1, 1)` -/
noncomputable def exInp : Nat → AAInput ℝ 2 1
  | 0 => { z := none, w := ![0, 0], Xw := ![1] }
  | 1 => { z := none, w := ![1, 0], Xw := ![2] }
  | 2 => { z := none, w := ![1, 1], Xw := ![3] }
  | _ => { z := some [1, 1], w := ![9, 9], Xw := ![19] }

/-- non-vacuity, `K = 2`: the first three calls return their arguments, the fourth extrapolates
    with `C = (1/2, 1/2)` from the exact solution `z = (1, 1)` and returns `w = (1, 1/2)`,
    `Xw = 5/2 = 1 + 1/2 + 1` — a combination of the iterates 2 and 3, on the same affine line as
    the buffered pairs, and not the argument `(9, 9)` of the call. -/
theorem example_K_two :
    (∀ k, k < 3 → (aaCall 2 exInp k).extrapolated = false ∧ (aaCall 2 exInp k).w = (exInp k).w) ∧
    Solves (aaGram (aaAfter 2 exInp 3)) [1, 1] ∧
    (aaCall 2 exInp 3).extrapolated = true ∧
    (aaCall 2 exInp 3).w = ![1, 1 / 2] ∧ (aaCall 2 exInp 3).Xw = ![5 / 2] ∧
    (aaCall 2 exInp 3).state.cur = 0 := by
  have hz : (exInp (2 + 1)).z = some (List.ofFn ![(1 : ℝ), 1]) := by simp [exInp]
  obtain ⟨h1, _, h3, h4⟩ := first_extrapolation (K := 2) exInp ![1, 1] hz (by norm_num [Fin.sum_univ_two])
  have hc : ∀ k : Fin 2, coef ![(1 : ℝ), 1] k = 1 / 2 := by
    intro k; unfold coef; fin_cases k <;> norm_num [Fin.sum_univ_two]
  refine ⟨fun k hk => ?_, ?_, h1, ?_, ?_, ?_⟩
  · have hf := (extrapolates_exactly_every_K_plus_two 2 exInp k)
    have : (aaCall 2 exInp k).extrapolated = false := by
      rw [← Bool.not_eq_true, hf.1]
      rintro ⟨hd, _⟩
      have := Nat.le_of_dvd (by omega) hd
      omega
    exact ⟨this, (hf.2 this).1⟩
  · have hbuf := fill_full (aaInit 2 : AAState ℝ 2 1) exInp rfl (by simp [aaInit])
    obtain ⟨_, hG⟩ := gram_ofFn (K := 2) (aaAfter 2 exInp 3) _ hbuf
    unfold Solves
    rw [hG]
    refine ⟨by simp, ?_⟩
    rw [List.forall_mem_ofFn_iff]
    intro a
    fin_cases a <;> simp [exInp, lsum_eq, Fin.sum_univ_two, List.ofFn_succ]
  · funext j
    rw [h3]
    fin_cases j <;> (simp [hc, Fin.sum_univ_two, exInp]; try norm_num)
  · funext i
    rw [h4]
    fin_cases i; simp [hc, Fin.sum_univ_two, exInp]; norm_num
  · unfold aaCall aaCallFrom
    rw [extrapolate_cur, if_neg]
    rw [(fill (aaInit 2 : AAState ℝ 2 1) exInp rfl (by simp [aaInit]) 3 (by simp [aaInit])).1, from_K]
    simp [aaInit]

end Real

end Skglm.AA
