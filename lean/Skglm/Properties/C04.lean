import Skglm.Spec.Penalties
import Skglm.Model.BlockPenalties
import Skglm.Proofs.Reductions
/-
  C04 — constraints hold at every stopping point (kernel level): every prox with a configured
  constraint maps into the feasible set, for all inputs; the run-level invariant is in
  `Skglm/Properties/Solver.lean`.
-/
namespace Skglm.C04
open Skglm Skglm.Spec

/-- soft-thresholding with `positive=True` never returns a negative number -/
theorem ST_pos_nonneg (x u : ℝ) : 0 ≤ ST x u true := by
  unfold ST
  split_ifs with h1 h2
  · linarith
  · exact absurd h2.2 (by simp)
  · exact le_refl _

/-- every separable penalty configured with positivity has a prox that lands in `[0, ∞)` -/
theorem prox1_nonneg (p : SepPen ℝ) (wt x s : ℝ) (hp : p.positive = true) (h : Admissible p wt s) :
    0 ≤ p.prox1 wt x s := by
  obtain ⟨hs, hwt, h⟩ := h
  cases p <;> simp only [SepPen.positive] at hp <;> cases hp
  · exact ST_pos_nonneg _ _
  · obtain ⟨ha, hr0, hr1⟩ := h
    simp only [SepPen.prox1]
    apply div_nonneg (ST_pos_nonneg _ _)
    have : 0 ≤ s * (1 - _) * _ := mul_nonneg (mul_nonneg hs.le (sub_nonneg.2 hr1)) ha
    linarith
  · exact ST_pos_nonneg _ _
  · obtain ⟨ha, hg, hsg⟩ := h
    exact Proofs.Red.prox_MCP_pos_nonneg _ _ _ _ _ hg (by linarith)
  · obtain ⟨ha, hg, hsg⟩ := h
    exact Proofs.Red.prox_MCP_pos_nonneg _ _ _ _ _ hg hsg
  · simp only [SepPen.prox1, smax_eq]
    exact le_max_left _ _

/-- the box prox lands in `[0, a]` -/
theorem prox_box_feasible (a wt x s : ℝ) (ha : 0 ≤ a) :
    0 ≤ (SepPen.box a).prox1 wt x s ∧ (SepPen.box a).prox1 wt x s ≤ a := by
  simp only [SepPen.prox1, box_proj]
  split_ifs with h1 h2
  · exact ⟨ha, le_refl _⟩
  · exact ⟨le_refl _, ha⟩
  · exact ⟨not_lt.1 h2, not_lt.1 h1⟩

/-- block soft-thresholding with `positive=True` has no negative entry -/
theorem BST_pos_nonneg {k : Nat} (x : Fin k → ℝ) (u : ℝ) (i : Fin k) : 0 ≤ BST x u true i := by
  simp only [BST, if_true]
  by_cases hx : 0 < x i
  · rw [if_pos hx]
    unfold BST0
    simp only
    split_ifs with h
    · exact le_refl _
    · show 0 ≤ (1 - u / _) * (if 0 < x i then x i else 0)
      rw [if_pos hx]
      push Not at h
      apply mul_nonneg _ hx.le
      have hn : 0 ≤ norm2 (fun i => if 0 < x i then x i else 0) := by
        rw [norm2_eq]; exact Real.sqrt_nonneg _
      rcases eq_or_lt_of_le hn with h0 | h0
      · rw [← h0]; simp
      · have : u / norm2 (fun i => if 0 < x i then x i else 0) < 1 := (div_lt_one h0).2 h
        linarith
  · rw [if_neg hx]

/-- penalties whose `value` encodes the constraint: an infeasible point has value `+∞`, so the
    acceptance test `p_obj_acc < p_obj` of the solvers rejects it -/
theorem value_inf_of_infeasible_box (a wt w : ℝ) (h : w < 0 ∨ a < w) : (SepPen.box a).pen1 wt w = .inf := by
  unfold SepPen.pen1
  rw [if_neg (by rintro ⟨h0, _⟩; cases h0)]
  show (if a < w then Ext.inf else if w < 0 then Ext.inf else Ext.fin 0) = Ext.inf
  split_ifs with h1 h2
  · rfl
  · rfl
  · rcases h with h | h
    · exact absurd h h2
    · exact absurd h h1

theorem value_inf_of_infeasible_pos (wt w : ℝ) (h : w < 0) : (SepPen.pos : SepPen ℝ).pen1 wt w = .inf := by
  unfold SepPen.pen1
  rw [if_pos ⟨rfl, h⟩]

theorem value_inf_of_infeasible_group {k : Nat} (a wg : ℝ) (wf w : Fin k → ℝ) (i : Fin k) (h : w i < 0) :
    (BlkPen.wgl2 a true).penBlk wg wf w = .inf := by
  simp only [BlkPen.penBlk]
  rw [if_pos]
  refine ⟨trivial, ?_⟩
  rw [Proofs.Red.foldl_or_eq_true]
  exact Or.inr ⟨i, decide_eq_true h⟩

example : ST (-3 : ℝ) 1 true = 0 := by simp [ST]; norm_num

end Skglm.C04
