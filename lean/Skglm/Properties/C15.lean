import Skglm.Spec.Solver
import Skglm.Proofs.Datafits
/-
  C15 — the symmetries of the problem act on objectives and on solver steps, so minimisers,
  stationary points and whole solver trajectories transform accordingly.

  1. permuting features      `perm_features_obj`, `perm_features_feasible`, `perm_features_minimiser`
  6. … at step level         `cdStep_perm`, `cdEpoch_perm`, `objective_perm`
  4. scaling `y` and `alpha` `scale_y_alpha`          (Quadratic / WeightedQuadratic, L1 / WeightedL1)
  2. permuting samples       `perm_samples_obj`, `perm_samples_grad`
  5. rescaling one feature   `rescale_feature`        (WeightedL1, any datafit but the SVC dual)
  3. duplicating the samples `stack_obj`, `stack_lipschitz`, `stack_grad` (any datafit but the SVC dual)
-/
namespace Skglm.C15
open Skglm Skglm.Spec Skglm.Proofs
variable {n p : Nat}

/-! ### 1. permuting features -/

/-- the problem with features (columns of `X`, weights) permuted by `σ` -/
def permFeatures (P : CDProb ℝ n p) (σ : Equiv.Perm (Fin p)) : CDProb ℝ n p :=
  { P with X := fun i j => P.X i (σ j), wts := fun j => P.wts (σ j) }

/-- the state seen through the permutation -/
def permState (s : CDState ℝ n p) (σ : Equiv.Perm (Fin p)) : CDState ℝ n p :=
  { w := fun j => s.w (σ j), b := s.b, Xw := s.Xw }

theorem linPred_permFeatures (P : CDProb ℝ n p) (σ : Equiv.Perm (Fin p)) (w : Fin p → ℝ) (b : ℝ) :
    linPred (permFeatures P σ) (fun j => w (σ j)) b = linPred P w b := by
  funext i
  simp only [linPred, permFeatures]
  rw [Equiv.sum_comp σ (fun j => P.X i j * w j)]

theorem perm_features_obj (P : CDProb ℝ n p) (σ : Equiv.Perm (Fin p)) (w : Fin p → ℝ) (b : ℝ) :
    trueObj (permFeatures P σ) (fun j => w (σ j)) b = trueObj P w b := by
  unfold trueObj
  rw [linPred_permFeatures]
  simp only [permFeatures, value_eq]
  rw [Equiv.sum_comp σ w, Equiv.sum_comp σ (fun j => (pen P.pen (P.wts j) (w j)).getD 0)]

theorem perm_features_feasible (P : CDProb ℝ n p) (σ : Equiv.Perm (Fin p)) (w : Fin p → ℝ) :
    Feasible (permFeatures P σ) (fun j => w (σ j)) ↔ Feasible P w := by
  unfold Feasible
  simp only [permFeatures]
  constructor
  · intro h j
    have := h (σ.symm j)
    simpa using this
  · intro h j
    exact h (σ j)

/-- a minimiser of the permuted problem is the permuted minimiser -/
theorem perm_features_minimiser (P : CDProb ℝ n p) (σ : Equiv.Perm (Fin p)) (w : Fin p → ℝ) (b : ℝ)
    (h : ∀ w' b', Feasible P w' → trueObj P w b ≤ trueObj P w' b') :
    ∀ w' b', Feasible (permFeatures P σ) w' →
      trueObj (permFeatures P σ) (fun j => w (σ j)) b ≤ trueObj (permFeatures P σ) w' b' := by
  intro w' b' hf
  have h1 := perm_features_obj P σ (fun k => w' (σ.symm k)) b'
  have h2 := perm_features_feasible P σ (fun k => w' (σ.symm k))
  simp only [Equiv.symm_apply_apply] at h1 h2
  rw [perm_features_obj, h1]
  exact h _ _ (h2.1 hf)

/-! ### 6. a coordinate step / an epoch on permuted data is the permuted step / epoch -/

theorem perm_step_aux (σ : Equiv.Perm (Fin p)) (s : CDState ℝ n p) (j : Fin p) (new : ℝ)
    (col : Fin n → ℝ) :
    (if eqb new (s.w (σ j)) then permState s σ
     else ({ w := mat (fun k => if k = j then new else s.w (σ k)), b := s.b,
             Xw := mat (fun i => s.Xw i + (new - s.w (σ j)) * col i) } : CDState ℝ n p))
    = permState (if eqb new (s.w (σ j)) then s
        else { w := mat (fun k => if k = σ j then new else s.w k), b := s.b,
               Xw := mat (fun i => s.Xw i + (new - s.w (σ j)) * col i) }) σ := by
  split_ifs with h
  · rfl
  · simp only [permState, mat_eq, CDState.mk.injEq, and_true]
    funext k
    by_cases hk : k = j
    · subst hk; simp
    · have : σ k ≠ σ j := fun e => hk (σ.injective e)
      simp [hk, this]

theorem cdStep_perm (P : CDProb ℝ n p) (σ : Equiv.Perm (Fin p)) (s : CDState ℝ n p) (j : Fin p) :
    (permFeatures P σ).cdStep (permState s σ) j = permState (P.cdStep s (σ j)) σ :=
  perm_step_aux σ s j _ _

theorem cdEpoch_perm (P : CDProb ℝ n p) (σ : Equiv.Perm (Fin p)) (s : CDState ℝ n p)
    (ws : List (Fin p)) :
    (permFeatures P σ).cdEpoch (permState s σ) ws = permState (P.cdEpoch s (ws.map σ)) σ := by
  unfold CDProb.cdEpoch
  induction ws generalizing s with
  | nil => rfl
  | cons j ws ih =>
    simp only [List.foldl_cons, List.map_cons]
    rw [cdStep_perm, ih]

/-- the objective the solver computes is invariant as well -/
theorem objective_perm (P : CDProb ℝ n p) (σ : Equiv.Perm (Fin p)) (s : CDState ℝ n p) :
    (permFeatures P σ).df.value (permFeatures P σ).sw (permFeatures P σ).y (permState s σ).Xw (permState s σ).w
      = P.df.value P.sw P.y s.Xw s.w := by
  simp only [permFeatures, permState, value_eq]
  rw [Equiv.sum_comp σ s.w]

/-! ### 4. scaling the targets and the regularisation strength (quadratic datafits, ℓ1 penalties) -/

/-- multiply `alpha` by `c` (ℓ1 and weighted ℓ1) -/
def scaleAlpha (c : ℝ) : SepPen ℝ → SepPen ℝ
  | .l1 a pos => .l1 (c * a) pos
  | .wl1 a pos => .wl1 (c * a) pos
  | pn => pn

/-- targets multiplied by `c`, `alpha` multiplied by `c` -/
def scaleProb (P : CDProb ℝ n p) (c : ℝ) : CDProb ℝ n p :=
  { P with y := fun i => c * P.y i, pen := scaleAlpha c P.pen }

theorem scale_y_alpha (P : CDProb ℝ n p) (c : ℝ) (w : Fin p → ℝ) (b : ℝ) (hc : 0 < c)
    (hdf : P.df = .quadratic ∨ P.df = .wquadratic)
    (hpen : ∃ a pos, P.pen = .l1 a pos ∨ P.pen = .wl1 a pos) :
    trueObj (scaleProb P c) (fun j => c * w j) (c * b) = c ^ 2 * trueObj P w b := by
  have hlp : linPred (scaleProb P c) (fun j => c * w j) (c * b) = fun i => c * linPred P w b i := by
    funext i
    simp only [linPred, scaleProb, mul_add, Finset.mul_sum]
    congr 1
    refine Finset.sum_congr rfl (fun j _ => ?_)
    ring
  have hpenj : ∀ j, (pen (scaleProb P c).pen ((scaleProb P c).wts j) (c * w j)).getD 0
      = c ^ 2 * (pen P.pen (P.wts j) (w j)).getD 0 := by
    intro j
    obtain ⟨a, pos, h | h⟩ := hpen
    all_goals
      simp only [scaleProb, h, scaleAlpha, pen, SepPen.positive]
      by_cases hneg : pos = true ∧ w j < 0
      · have hneg' : pos = true ∧ c * w j < 0 := ⟨hneg.1, by nlinarith [hneg.2]⟩
        rw [if_pos hneg, if_pos hneg']; simp
      · have hneg' : ¬ (pos = true ∧ c * w j < 0) := by
          rintro ⟨h1, h2⟩
          exact hneg ⟨h1, by by_contra h3; push Not at h3; nlinarith⟩
        rw [if_neg hneg, if_neg hneg']
        simp only [Option.getD_some, abs_mul, abs_of_pos hc]
        ring
  unfold trueObj
  rw [hlp]
  simp only [hpenj, ← Finset.mul_sum]
  have hval : (scaleProb P c).df.value (scaleProb P c).sw (scaleProb P c).y
      (fun i => c * linPred P w b i) (fun j => c * w j)
      = c ^ 2 * P.df.value P.sw P.y (linPred P w b) w := by
    simp only [scaleProb, value_eq]
    rcases hdf with h | h <;> rw [h] <;>
      simp only [DF.loss1, DF.lin, zero_mul, add_zero, nat_eq, Nat.cast_ofNat]
    all_goals
      rw [← mul_div_assoc, Finset.mul_sum]
      congr 1
      refine Finset.sum_congr rfl (fun i _ => ?_)
      ring
  rw [hval]
  ring

/-! ### 2. permuting samples -/

/-- the problem with samples (rows of `X`, targets, sample weights) permuted by `τ` -/
def permSamples (P : CDProb ℝ n p) (τ : Equiv.Perm (Fin n)) : CDProb ℝ n p :=
  { P with X := fun i j => P.X (τ i) j, y := fun i => P.y (τ i), sw := fun i => P.sw (τ i) }

theorem normaliser_perm (d : DF ℝ) (sw : Fin n → ℝ) (τ : Equiv.Perm (Fin n)) :
    d.normaliser (fun i => sw (τ i)) = d.normaliser sw := by
  cases d <;> simp only [DF.normaliser, vsum_eq]
  exact Equiv.sum_comp τ sw

theorem perm_samples_obj (P : CDProb ℝ n p) (τ : Equiv.Perm (Fin n)) (w : Fin p → ℝ) (b : ℝ) :
    trueObj (permSamples P τ) w b = trueObj P w b := by
  unfold trueObj
  have hlp : linPred (permSamples P τ) w b = fun i => linPred P w b (τ i) := rfl
  rw [hlp]
  simp only [permSamples, value_eq, normaliser_perm]
  rw [Equiv.sum_comp τ (fun i => P.sw i * P.df.loss1 (P.y i) (linPred P w b i))]

/-- the gradient and the step constants are those of the original problem as well -/
theorem perm_samples_grad (P : CDProb ℝ n p) (τ : Equiv.Perm (Fin n)) (u : Fin n → ℝ) (j : Fin p) :
    (permSamples P τ).df.gradScalar (permSamples P τ).X (permSamples P τ).sw (permSamples P τ).y
        (fun i => u (τ i)) j = P.df.gradScalar P.X P.sw P.y u j ∧
    (permSamples P τ).df.lipschitz (permSamples P τ).X (permSamples P τ).sw j
      = P.df.lipschitz P.X P.sw j := by
  constructor
  · simp only [permSamples, DF.gradScalar, DF.rawGrad, vsum_eq, normaliser_perm]
    rw [Equiv.sum_comp τ (fun i => P.X i j * (P.sw i * P.df.dloss1 (P.y i) (u i) / P.df.normaliser P.sw))]
  · simp only [permSamples, DF.lipschitz, vsum_eq, normaliser_perm]
    rw [Equiv.sum_comp τ (fun i => P.sw i * (P.X i j * P.X i j))]

/-! ### 5. rescaling one feature (weighted ℓ1) -/

/-- column `j` and weight `j` multiplied by `c` -/
def rescaleFeature (P : CDProb ℝ n p) (j : Fin p) (c : ℝ) : CDProb ℝ n p :=
  { P with X := fun i k => if k = j then c * P.X i k else P.X i k,
           wts := fun k => if k = j then c * P.wts k else P.wts k }

theorem rescale_feature (P : CDProb ℝ n p) (j : Fin p) (c : ℝ) (w : Fin p → ℝ) (b : ℝ) (hc : 0 < c)
    (hdf : P.df ≠ .svc) (hpen : ∃ a pos, P.pen = .wl1 a pos) :
    trueObj (rescaleFeature P j c) (fun k => if k = j then w k / c else w k) b = trueObj P w b := by
  have hlp : linPred (rescaleFeature P j c) (fun k => if k = j then w k / c else w k) b
      = linPred P w b := by
    funext i
    simp only [linPred, rescaleFeature]
    congr 1
    refine Finset.sum_congr rfl (fun k _ => ?_)
    by_cases hk : k = j
    · simp only [hk, if_true]; field_simp
    · simp only [if_neg hk]
  have hlin : P.df.lin = 0 := by
    cases hd : P.df <;> simp [DF.lin] ; exact absurd hd hdf
  obtain ⟨a, pos, hp⟩ := hpen
  unfold trueObj
  rw [hlp]
  simp only [rescaleFeature, value_eq, hlin, zero_mul, add_zero]
  congr 1
  refine Finset.sum_congr rfl (fun k _ => ?_)
  by_cases hk : k = j
  · simp only [hk, if_true, hp, pen, SepPen.positive]
    have hsign : w j / c < 0 ↔ w j < 0 := by
      rw [div_lt_iff₀ hc, zero_mul]
    by_cases hneg : pos = true ∧ w j < 0
    · rw [if_pos hneg, if_pos ⟨hneg.1, hsign.2 hneg.2⟩]
    · rw [if_neg hneg, if_neg (fun h => hneg ⟨h.1, hsign.1 h.2⟩)]
      simp only [Option.getD_some, abs_div, abs_of_pos hc]
      field_simp
  · simp only [if_neg hk]

/-! ### 3. stacking two copies of the data -/

/-- every sample duplicated: `2n` samples -/
def double (P : CDProb ℝ n p) : CDProb ℝ (n + n) p :=
  { X := fun i j => Fin.append (fun i => P.X i j) (fun i => P.X i j) i
    y := Fin.append P.y P.y
    sw := Fin.append P.sw P.sw
    df := P.df, pen := P.pen, wts := P.wts, fitInt := P.fitInt }

theorem sum_append (f : Fin n → ℝ) (F : Fin (n + n) → ℝ)
    (hl : ∀ i, F (Fin.castAdd n i) = f i) (hr : ∀ i, F (Fin.natAdd n i) = f i) :
    ∑ i, F i = 2 * ∑ i, f i := by
  rw [Fin.sum_univ_add]
  simp only [hl, hr]
  ring

theorem normaliser_double (P : CDProb ℝ n p) (hdf : P.df ≠ .svc) :
    (double P).df.normaliser (double P).sw = 2 * P.df.normaliser P.sw := by
  simp only [double]
  cases hd : P.df <;> simp only [DF.normaliser, nat_eq, vsum_eq]
  case svc => exact absurd hd hdf
  case wquadratic =>
    exact sum_append P.sw _ (fun i => Fin.append_left _ _ i) (fun i => Fin.append_right _ _ i)
  all_goals push_cast; ring

theorem stack_obj (P : CDProb ℝ n p) (w : Fin p → ℝ) (b : ℝ) (hdf : P.df ≠ .svc) :
    trueObj (double P) w b = trueObj P w b := by
  unfold trueObj
  have hpen : ∑ j, (pen (double P).pen ((double P).wts j) (w j)).getD 0
      = ∑ j, (pen P.pen (P.wts j) (w j)).getD 0 := rfl
  rw [hpen]
  congr 1
  rw [value_eq, value_eq, normaliser_double P hdf]
  have hsum : ∑ i, (double P).sw i * (double P).df.loss1 ((double P).y i) (linPred (double P) w b i)
      = 2 * ∑ i, P.sw i * P.df.loss1 (P.y i) (linPred P w b i) := by
    refine sum_append _ _ (fun i => ?_) (fun i => ?_)
    · simp only [double, linPred, Fin.append_left]
    · simp only [double, linPred, Fin.append_right]
  rw [hsum]
  have : (double P).df.lin = P.df.lin := rfl
  rw [this, mul_div_mul_left _ _ (two_ne_zero)]

/-- the step constants of the doubled problem are those of the original one, and so are the
    gradients at duplicated model fits: the solver follows the same trajectory -/
theorem stack_lipschitz (P : CDProb ℝ n p) (j : Fin p) (hdf : P.df ≠ .svc) :
    (double P).df.lipschitz (double P).X (double P).sw j = P.df.lipschitz P.X P.sw j := by
  have hN := normaliser_double P hdf
  unfold DF.lipschitz
  have hcb : (double P).df.curvBound = P.df.curvBound := rfl
  rw [hcb]
  cases P.df.curvBound with
  | none => rfl
  | some c =>
    simp only [hN, vsum_eq]
    have hsum : ∑ i, (double P).sw i * ((double P).X i j * (double P).X i j)
        = 2 * ∑ i, P.sw i * (P.X i j * P.X i j) := by
      refine sum_append _ _ (fun i => ?_) (fun i => ?_)
      · simp only [double, Fin.append_left]
      · simp only [double, Fin.append_right]
    rw [hsum, mul_assoc, mul_div_mul_left _ _ (two_ne_zero)]

theorem stack_grad (P : CDProb ℝ n p) (u : Fin n → ℝ) (j : Fin p) (hdf : P.df ≠ .svc) :
    (double P).df.gradScalar (double P).X (double P).sw (double P).y (Fin.append u u) j
      = P.df.gradScalar P.X P.sw P.y u j := by
  have hN := normaliser_double P hdf
  simp only [DF.gradScalar, DF.rawGrad, vsum_eq, hN]
  have hsum : ∑ i, (double P).X i j * ((double P).sw i *
        (double P).df.dloss1 ((double P).y i) (Fin.append u u i) / (2 * P.df.normaliser P.sw))
      = 2 * ∑ i, P.X i j * (P.sw i * P.df.dloss1 (P.y i) (u i) / (2 * P.df.normaliser P.sw)) := by
    refine sum_append _ _ (fun i => ?_) (fun i => ?_)
    · simp only [double, Fin.append_left]
    · simp only [double, Fin.append_right]
  rw [hsum, Finset.mul_sum]
  congr 1
  refine Finset.sum_congr rfl (fun i _ => ?_)
  rw [mul_left_comm, ← mul_div_assoc, mul_div_mul_left _ _ (two_ne_zero)]

end Skglm.C15
