import Skglm.Model.Estimators
import Mathlib.Tactic
/-
  C18 — the compile cache does not leak state between fits: the cache stores compiled classes
  keyed by `(class, spec, to_float32)`, every fit builds a fresh instance from its own parameters,
  so the result of a fit is a function of its arguments only, whatever was fitted before.
-/
namespace Skglm.C18
open Skglm
variable {Args R : Type}

theorem fitHistory_append (solve : Args → R) (h : List (CacheKey × Args)) (k : CacheKey) (a : Args) :
    fitHistory solve (h ++ [(k, a)])
      = (Cache.lookupOrCompile (fitHistory solve h).1 k, some (solve a)) := by
  simp only [fitHistory, List.foldl_append, List.foldl_cons, List.foldl_nil, fitOnce]

/-- after any history of fits, the result of a fit is `solve` of its own arguments -/
theorem fit_depends_only_on_args (solve : Args → R) (history : List (CacheKey × Args))
    (k : CacheKey) (a : Args) :
    (fitHistory solve (history ++ [(k, a)])).2 = some (solve a) := by
  rw [fitHistory_append]

/-- … in particular two sessions that end with the same fit return the same result -/
theorem fit_independent_of_history (solve : Args → R) (h₁ h₂ : List (CacheKey × Args))
    (k₁ k₂ : CacheKey) (a : Args) :
    (fitHistory solve (h₁ ++ [(k₁, a)])).2 = (fitHistory solve (h₂ ++ [(k₂, a)])).2 := by
  rw [fit_depends_only_on_args, fit_depends_only_on_args]

/-- the cache only ever gains the key looked up -/
theorem cache_never_stores_instances (c : Cache) (k k' : CacheKey) :
    k' ∈ Cache.lookupOrCompile c k ↔ k' ∈ c ∨ k' = k := by
  unfold Cache.lookupOrCompile
  split_ifs with h
  · constructor
    · exact Or.inl
    · rintro (h' | rfl)
      · exact h'
      · exact h
  · rw [List.mem_cons]; tauto

theorem foldl_cache (solve : Args → R) (h : List (CacheKey × Args)) (st : Cache × Option R) :
    (h.foldl (fun st ka => let r := fitOnce solve st.1 ka.1 ka.2; (r.1, some r.2)) st).1
      = (h.map Prod.fst).foldl Cache.lookupOrCompile st.1 := by
  induction h generalizing st with
  | nil => rfl
  | cons ka h ih => simp only [List.foldl_cons, List.map_cons]; rw [ih]; rfl

/-- the cache after a session is a function of the *keys* only: neither the arguments of the fits
    nor what the solver computed are stored -/
theorem cache_depends_only_on_keys {Args' R' : Type} (solve : Args → R) (solve' : Args' → R')
    (h : List (CacheKey × Args)) (h' : List (CacheKey × Args'))
    (hk : h.map Prod.fst = h'.map Prod.fst) :
    (fitHistory solve h).1 = (fitHistory solve' h').1 := by
  unfold fitHistory
  rw [foldl_cache, foldl_cache, hk]

/-- a hit leaves the cache unchanged -/
theorem lookup_of_mem {c : Cache} {k : CacheKey} (h : k ∈ c) : Cache.lookupOrCompile c k = c := by
  unfold Cache.lookupOrCompile
  rw [if_pos h]

/-- fitting the same thing twice: same result, and the cache does not change the second time -/
theorem refit_idempotent (solve : Args → R) (c : Cache) (k : CacheKey) (a : Args) :
    (fitOnce solve (fitOnce solve c k a).1 k a).2 = (fitOnce solve c k a).2 ∧
    (fitOnce solve (fitOnce solve c k a).1 k a).1 = (fitOnce solve c k a).1 := by
  refine ⟨rfl, ?_⟩
  simp only [fitOnce]
  have hk : k ∈ Cache.lookupOrCompile c k := (cache_never_stores_instances c k k).2 (Or.inr rfl)
  exact lookup_of_mem hk

/-- non-vacuity / executability: a concrete session -/
example : (fitHistory (fun a : Nat => a + 1)
    [(⟨0, 0, false⟩, 3), (⟨1, 0, false⟩, 5), (⟨0, 0, false⟩, 7)]) =
    ([⟨1, 0, false⟩, ⟨0, 0, false⟩], some 8) := by decide

end Skglm.C18

/-! ### which compiled class a request gets -/
namespace Skglm.C18
open Skglm

theorem lookupOrCompile_nodup (c : Cache) (k : CacheKey) (h : c.Nodup) :
    (Cache.lookupOrCompile c k).Nodup := by
  unfold Cache.lookupOrCompile
  split
  · exact h
  · exact List.nodup_cons.2 ⟨by assumption, h⟩

/-- a compiled class is never replaced: later requests leave the identity of every cached key
    unchanged -/
theorem class_identity_stable (c : Cache) (k k' : CacheKey) (h : k' ∈ c) :
    (Cache.lookupOrCompile c k).idOf k' = c.idOf k' := by
  unfold Cache.lookupOrCompile
  split
  · rfl
  · rename_i hk
    have hne : k ≠ k' := fun e => hk (e ▸ h)
    have hne' : ¬ (k == k') = true := by simpa using hne
    simp [Cache.idOf, h, List.idxOf_cons, hne']
    have := List.idxOf_lt_length_of_mem h
    omega

/-- two keys share a compiled class only if they are the same key: class, spec *and* precision -/
theorem same_class_same_key (c : Cache) (k k' : CacheKey) (hk : k ∈ c) (hk' : k' ∈ c)
    (h : c.idOf k = c.idOf k') : k = k' := by
  simp only [Cache.idOf, hk, hk', if_true, Option.some.injEq] at h
  have h1 := List.idxOf_lt_length_of_mem hk
  have h2 := List.idxOf_lt_length_of_mem hk'
  have : c.idxOf k = c.idxOf k' := by omega
  have e1 := List.getElem_idxOf h1
  have e2 := List.getElem_idxOf h2
  simp only [this] at e1
  exact e1.symm.trans e2

/-- in particular a float32 request never gets the class compiled for float64 (and conversely) -/
theorem precision_separates (c : Cache) (cls spec : Nat) (h32 : ⟨cls, spec, true⟩ ∈ c)
    (h64 : ⟨cls, spec, false⟩ ∈ c) : c.idOf ⟨cls, spec, true⟩ ≠ c.idOf ⟨cls, spec, false⟩ := by
  intro h
  have := same_class_same_key c _ _ h32 h64 h
  simp at this

example : cacheIds [⟨0, 0, false⟩, ⟨0, 0, true⟩, ⟨0, 0, false⟩, ⟨1, 0, false⟩] =
    [some 0, some 1, some 0, some 2] := by decide

end Skglm.C18
