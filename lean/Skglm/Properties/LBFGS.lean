import Skglm.Proofs.LBFGS
/-
  LBFGS (`skglm/solvers/lbfgs.py`) — properties of the wrapper around scipy's L-BFGS-B and of the
  `L2` penalty (`skglm/penalties/separable.py`), for the definitions of `Skglm/Model/LBFGS.lean`.

  scipy's iteration is an external call and is **not** modelled: every statement below is about the
  three things the wrapper itself computes — the function handed over as `fun`, the function handed
  over as `jac`, and what is returned (`result.x`, the callback history, `norm(result.jac, inf)`) —
  at an **arbitrary** point `w`, under the contract `result.jac = jac(result.x)`.

  * (0) documented objective [C11]: `objective(w) = datafit(y, Xw) + alpha/2 ‖w‖²`; `L2.value`,
    `L2.gradient` are the documented penalty and its derivative.
  * (a) [C06/C01] `jac_is_gradient`: the `jac` handed to scipy is the true gradient of the `fun` handed
    to scipy — every partial derivative, and every directional derivative.
  * (b) [C10] `jac_sparse_eq_dense`: CSC input gives the same `fun`, `jac` and `stop_crit`.
  * (c) [C01] `stop_is_certificate`: `stop_crit ≤ tol` bounds every partial derivative of the
    objective at the returned point by `tol`; it is the same `Spec.Certificate` as AndersonCD's
    (with `L2(alpha)` read as `L1_plus_L2(alpha, 0)`); for a convex datafit `stop_crit = 0` makes the
    returned point a global minimiser (the unique one for `alpha > 0`) and `stop_crit ≤ tol` gives
    an explicit sub-optimality bound.
  * (d) [C17] `history_entry_is_objective`: each recorded value is the objective at the point the
    callback received.

  Which datafits reach this code: `_validate` demands a `gradient` method — Quadratic,
  WeightedQuadratic, Logistic, Poisson (and Cox) — `DF.offersGradient`; the theorems are stated for
  every datafit of the model (`DF.gradient` is total).  CSC input: `gradient_sparse` — Logistic (and
  Cox) only, `DF.offersGradientSparse`.

  Observations on the code (nothing is proved about scipy; seen on scipy 1.18.1):
  * O1. `max_iter = 0` performs one iteration, like `max_iter = 1` (scipy tests `nit >= maxiter`
    after the iteration): the history has one entry and the returned point is not `w_init`.
  * O2. when the start already satisfies `‖proj. gradient‖∞ <= tol`, scipy returns at iteration 0
    without calling the callback: the history is **empty** (`np.asarray([])`) while `stop_crit` and
    `w = x0` are returned; `len(p_objs_out)` is `result.nit`, not `nit + 1`, and the objective at
    the start is never recorded.
  * O3. the code does not check that the last callback point is `result.x`; the history entry is
    `objective(w_k)` recomputed by the wrapper, not scipy's `result.fun`.
  * O4. `ftol=0.` does not make `gtol` the only successful exit: scipy still stops with
    `success=True` ("RELATIVE REDUCTION OF F <= FACTR*EPSMCH") when an iteration does not decrease
    `f` in floating point; no `ConvergenceWarning` is raised and the returned `stop_crit` is
    larger than `tol` (e.g. `tol=1e-10`: `stop_crit = 7.2e-10`, no warning).  So "no warning" does
    not imply `stop_crit ≤ tol`; the hypothesis of (c) has to be read off the returned `stop_crit`.
  * O5. scipy's test is `≤ gtol` (FISTA / AndersonCD stop on `< tol`).
  * O6. the docstring says `max_iter : int, default 20`; the signature has `max_iter=50`.
  * O7. `Xw_init` is never read; `w_init` is passed as `x0` (scipy copies it: not mutated, and the
    returned `w` is never the same array).
  * O8. `_sparse_xj_dot` is compiled with `fastmath=True` (floating-point reassociation allowed);
    dense and CSC runs can stop at different iterations / for different reasons.
-/
namespace Skglm.Lbfgs
open Skglm Skglm.Spec Skglm.Proofs
variable {n p : Nat}

/-! ### (0) the documented objective [C11] -/

/-- `L2.value(w)` is the documented `alpha / 2 ‖w‖₂²` -/
theorem l2_value_eq_doc (alpha : ℝ) (w : Fin p → ℝ) : l2Value alpha w = alpha / 2 * ∑ j, w j ^ 2 :=
  l2Value_eq alpha w

/-- `L2.gradient(w)[j]` is the partial derivative of `L2.value` in `w_j`, at every point -/
theorem l2_grad_is_deriv (alpha : ℝ) (w : Fin p → ℝ) (j : Fin p) :
    HasDerivAt (fun t => l2Value alpha (Function.update w j t)) (l2Grad alpha w j) (w j) := by
  simp only [l2Value_eq]
  exact l2_hasDerivAt alpha w j

/-- the `fun` handed to scipy is the documented objective `datafit(y, Xw) + alpha/2 ‖w‖²`,
    a function of `X, y, w` alone -/
theorem objective_eq_doc (P : LbfgsProb ℝ n p) (w : Fin p → ℝ) :
    P.lbfgsObjective w
      = P.df.value P.sw P.y (fun i => ∑ k, P.X i k * w k) w + P.alpha / 2 * ∑ j, w j ^ 2 :=
  objective_eq P w

/-- the `jac` handed to scipy, unfolded: `Xᵀ raw_grad(y, Xw) + alpha w`, from `X, y, w` alone -/
theorem jac_eq_true_gradient (P : LbfgsProb ℝ n p) (w : Fin p → ℝ) (j : Fin p) :
    P.lbfgsJac w j
      = P.df.gradScalar P.X P.sw P.y (fun i => ∑ k, P.X i k * w k) j + P.alpha * w j := by
  rw [jac_eq]; rfl

/-! ### (a) `jac` is the gradient of `fun` [C06/C01] -/

/-- for every coordinate `j`, `jac(w)[j]` is the partial derivative of `objective` at `w`: all
    datafits of the model (Huber needs `0 < delta`; it is rejected by `_validate` anyway), the `L2`
    penalty with `alpha` of any sign, all data -/
theorem jac_is_gradient (P : LbfgsProb ℝ n p) (w : Fin p → ℝ) (j : Fin p)
    (hdelta : ∀ delta, P.df = .huber delta → 0 < delta) :
    HasDerivAt (fun t => P.lbfgsObjective (Function.update w j t)) (P.lbfgsJac w j) (w j) := by
  simp only [objective_eq, jac_eq]
  exact trueObjective_hasDerivAt P w j hdelta

/-- … and along every direction `d`: the slope of `t ↦ objective(w + t d)` at `0` is `⟨jac(w), d⟩`
    (`jac` is the gradient, not only the vector of partial derivatives) -/
theorem jac_is_directional_derivative (P : LbfgsProb ℝ n p) (w d : Fin p → ℝ)
    (hdelta : ∀ delta, P.df = .huber delta → 0 < delta) :
    HasDerivAt (fun t => P.lbfgsObjective (fun k => w k + t * d k))
      (∑ j, P.lbfgsJac w j * d j) 0 := by
  simp only [objective_eq, jac_eq]
  exact trueObjective_hasDerivAt_dir P w d hdelta

/-- the datafits `_validate` lets through satisfy the hypothesis of (a) -/
theorem offersGradient_no_huber (d : DF ℝ) (h : d.offersGradient = true) :
    ∀ delta, d = .huber delta → 0 < delta := by
  intro delta hd
  subst hd
  simp [DF.offersGradient] at h

/-! ### (b) CSC input [C10] -/

/-- `X @ w` for CSC input is the dense product with the represented matrix (any stored pattern:
    explicit zeros, unsorted rows, duplicates) -/
theorem matVec_sparse_eq_dense (M : CSC ℝ n p) (w : Fin p → ℝ) (i : Fin n) :
    M.matVec w i = ∑ j, M.toDense i j * w j := matVec_eq M w i

/-- the `fun` handed to scipy for CSC input is the one for the dense matrix -/
theorem objective_sparse_eq_dense (P : LbfgsProb ℝ n p) (M : CSC ℝ n p) (w : Fin p → ℝ)
    (hM : M.toDense = P.X) : P.lbfgsObjectiveSparse M w = P.lbfgsObjective w := by
  unfold LbfgsProb.lbfgsObjectiveSparse LbfgsProb.lbfgsObjective
  have : M.matVec w = P.Xv w := by
    funext i
    rw [matVec_eq, Xv_eq, hM]
    rfl
  rw [this]

/-- `s_jac = d_jac`: the `jac` handed to scipy for CSC input `M` is the dense one on the matrix `M`
    represents — every datafit of the model (`gradient_sparse` exists for Logistic only) -/
theorem jac_sparse_eq_dense (P : LbfgsProb ℝ n p) (M : CSC ℝ n p) (w : Fin p → ℝ)
    (hM : M.toDense = P.X) : P.lbfgsJacSparse M w = P.lbfgsJac w := by
  funext j
  have hu : M.matVec w = lin P w := by
    funext i
    rw [matVec_eq, hM]
    rfl
  rw [jac_eq]
  simp only [LbfgsProb.lbfgsJacSparse, mat_eq, gradientSparse_eq, hu, hM, l2Grad, trueGrad]

/-- hence the same `stop_crit` -/
theorem stop_sparse_eq_dense (P : LbfgsProb ℝ n p) (M : CSC ℝ n p) (w : Fin p → ℝ)
    (hM : M.toDense = P.X) : P.lbfgsStopSparse M w = P.lbfgsStop w := by
  unfold LbfgsProb.lbfgsStopSparse LbfgsProb.lbfgsStop
  rw [jac_sparse_eq_dense P M w hM]

/-! ### (c) the returned criterion [C01] -/

/-- `stop_crit` is non-negative and bounds every entry of `jac` at the returned point -/
theorem stop_bounds_jac (P : LbfgsProb ℝ n p) (w : Fin p → ℝ) :
    0 ≤ P.lbfgsStop w ∧ ∀ j, |P.lbfgsJac w j| ≤ P.lbfgsStop w :=
  ⟨supNorm_nonneg _, abs_le_supNorm _⟩

/-- `stop_crit ≤ tol` iff every entry of the true gradient is within `tol` of `0` (and `0 ≤ tol`) -/
theorem stop_le_iff (P : LbfgsProb ℝ n p) (w : Fin p → ℝ) (tol : ℝ) :
    P.lbfgsStop w ≤ tol ↔ 0 ≤ tol ∧ ∀ j, |trueGrad P w j| ≤ tol := by
  unfold LbfgsProb.lbfgsStop
  rw [supNorm_le_iff, jac_eq]

/-- **first-order optimality within `tol`**, from `X, y, w` alone: when the returned `stop_crit` is at
    most `tol`, every partial derivative of the documented objective at the returned point exists and
    is within `tol` of `0` -/
theorem stop_is_certificate (P : LbfgsProb ℝ n p) (w : Fin p → ℝ) (tol : ℝ)
    (hdelta : ∀ delta, P.df = .huber delta → 0 < delta) (h : P.lbfgsStop w ≤ tol) :
    ∀ j, ∃ g, HasDerivAt
        (fun t => P.df.value P.sw P.y (fun i => ∑ k, P.X i k * Function.update w j t k)
            (Function.update w j t) + P.alpha / 2 * ∑ k, Function.update w j t k ^ 2) g (w j)
      ∧ |g| ≤ tol := fun j =>
  ⟨trueGrad P w j, trueObjective_hasDerivAt P w j hdelta, ((stop_le_iff P w tol).1 h).2 j⟩

/-- the same statement as C01's / GramCD's / FISTA's `Spec.Certificate`: `L2(alpha)` is the documented
    penalty of `L1_plus_L2(alpha, l1_ratio=0)`, differentiable, so that its only regular sub-gradient at
    `w_j` is `alpha w_j` -/
theorem stop_is_spec_certificate (P : LbfgsProb ℝ n p) (w : Fin p → ℝ) (tol : ℝ)
    (h : P.lbfgsStop w ≤ tol) : Certificate (toCD P) w 0 tol := by
  refine ⟨fun j => ⟨P.alpha * w j, ?_, ?_⟩, fun hb => by cases hb⟩
  · have hd : HasDerivAt (fun v : ℝ => P.alpha * (0 * |v| + (1 - 0) * v ^ 2 / 2)) (P.alpha * w j) (w j) := by
      have := ((hasDerivAt_id' (w j)).fun_pow 2).const_mul (P.alpha / 2)
      refine (this.congr_deriv (by norm_num; ring)).congr_of_eventuallyEq ?_
      exact Filter.Eventually.of_forall (fun v => by ring)
    refine (SD.subgrad_iff_of_deriv (P.alpha * w j) hd ⟨1, one_pos, fun v _ => ?_⟩).2 rfl
    simp [toCD, pen, SepPen.positive]
  · have := ((stop_le_iff P w tol).1 h).2 j
    have hl : linPred (toCD P) w 0 = lin P w := by
      funext i
      simp [linPred, toCD, lin]
    have e : -(toCD P).df.gradScalar (toCD P).X (toCD P).sw (toCD P).y (linPred (toCD P) w 0) j
        - P.alpha * w j = -(trueGrad P w j) := by
      rw [hl]
      simp only [toCD, trueGrad]
      ring
    rw [e, abs_neg]
    exact this

/-- convex datafit: the objective at any other point `v` lies above its linearisation at `w`, with
    the quadratic term of the penalty on top (`alpha`-strong convexity when `alpha > 0`) -/
theorem objective_strongly_convex_at (P : LbfgsProb ℝ n p) (hP : ConvexData P) (w v : Fin p → ℝ) :
    P.lbfgsObjective w + ∑ j, P.lbfgsJac w j * (v j - w j) + P.alpha / 2 * ∑ j, (v j - w j) ^ 2
      ≤ P.lbfgsObjective v := by
  simp only [objective_eq, jac_eq]
  exact tangent_ineq P hP w v

/-- **sub-optimality from the returned criterion**: convex datafit, `stop_crit ≤ tol`: for every `v`
    `objective(w) ≤ objective(v) + tol ‖v - w‖₁ - alpha/2 ‖v - w‖²` -/
theorem stop_gives_gap (P : LbfgsProb ℝ n p) (hP : ConvexData P) (w v : Fin p → ℝ) (tol : ℝ)
    (h : P.lbfgsStop w ≤ tol) :
    P.lbfgsObjective w
      ≤ P.lbfgsObjective v + tol * ∑ j, |v j - w j| - P.alpha / 2 * ∑ j, (v j - w j) ^ 2 := by
  have hc := objective_strongly_convex_at P hP w v
  have hb := (stop_bounds_jac P w).2
  have hs : -(tol * ∑ j, |v j - w j|) ≤ ∑ j, P.lbfgsJac w j * (v j - w j) := by
    rw [Finset.mul_sum, ← Finset.sum_neg_distrib]
    refine Finset.sum_le_sum (fun j _ => ?_)
    have h1 : |P.lbfgsJac w j * (v j - w j)| ≤ tol * |v j - w j| := by
      rw [abs_mul]
      exact mul_le_mul_of_nonneg_right ((hb j).trans h) (abs_nonneg _)
    linarith [neg_abs_le (P.lbfgsJac w j * (v j - w j))]
  linarith

/-- **`stop_crit = 0` ⇒ global minimiser**: convex datafit, `alpha ≥ 0`: the returned point minimises
    the objective over all of `ℝ^p`, with the margin `alpha/2 ‖v - w‖²` -/
theorem stop_zero_is_global_min (P : LbfgsProb ℝ n p) (hP : ConvexData P) (w : Fin p → ℝ)
    (h : P.lbfgsStop w = 0) (v : Fin p → ℝ) :
    P.lbfgsObjective w + P.alpha / 2 * ∑ j, (v j - w j) ^ 2 ≤ P.lbfgsObjective v := by
  have := stop_gives_gap P hP w v 0 h.le
  linarith

/-- … in particular `objective(w) ≤ objective(v)` when `alpha ≥ 0` … -/
theorem stop_zero_minimises (P : LbfgsProb ℝ n p) (hP : ConvexData P) (ha : 0 ≤ P.alpha)
    (w : Fin p → ℝ) (h : P.lbfgsStop w = 0) (v : Fin p → ℝ) :
    P.lbfgsObjective w ≤ P.lbfgsObjective v := by
  have := stop_zero_is_global_min P hP w h v
  have h2 : 0 ≤ P.alpha / 2 * ∑ j, (v j - w j) ^ 2 :=
    mul_nonneg (by linarith) (Finset.sum_nonneg (fun j _ => sq_nonneg _))
  linarith

/-- … and it is the only minimiser when `alpha > 0` -/
theorem stop_zero_unique_min (P : LbfgsProb ℝ n p) (hP : ConvexData P) (ha : 0 < P.alpha)
    (w : Fin p → ℝ) (h : P.lbfgsStop w = 0) (v : Fin p → ℝ)
    (hv : P.lbfgsObjective v ≤ P.lbfgsObjective w) : v = w := by
  have := stop_zero_is_global_min P hP w h v
  have h0 : ∑ j, (v j - w j) ^ 2 ≤ 0 := by
    by_contra hc
    have : 0 < P.alpha / 2 * ∑ j, (v j - w j) ^ 2 := mul_pos (by linarith) (not_le.1 hc)
    linarith
  funext j
  have hj : (v j - w j) ^ 2 ≤ 0 :=
    (Finset.single_le_sum (f := fun j => (v j - w j) ^ 2) (fun k _ => sq_nonneg _)
      (Finset.mem_univ j)).trans h0
  nlinarith [sq_nonneg (v j - w j)]

/-- conversely a minimiser has `stop_crit = 0` (any datafit of the model): the criterion vanishes
    exactly at the stationary points of the objective -/
theorem stop_zero_iff_stationary (P : LbfgsProb ℝ n p) (w : Fin p → ℝ) :
    P.lbfgsStop w = 0 ↔ ∀ j, trueGrad P w j = 0 := by
  unfold LbfgsProb.lbfgsStop
  rw [supNorm_eq_zero_iff, jac_eq]

/-! ### (d) the history [C17] -/

/-- `p_objs_out` is the list of `objective(w_k)` over the points the callback received, in order -/
theorem history_eq_map (P : LbfgsProb ℝ n p) (iters : List (Fin p → ℝ)) :
    P.lbfgsHistory iters = iters.map P.lbfgsObjective := by
  have h : ∀ (l : List (Fin p → ℝ)) (acc : List ℝ),
      l.foldl P.lbfgsCallback acc = acc ++ l.map P.lbfgsObjective := by
    intro l
    induction l with
    | nil => intro acc; simp
    | cons a l ih =>
      intro acc
      rw [List.foldl_cons, ih]
      simp [LbfgsProb.lbfgsCallback]
  unfold LbfgsProb.lbfgsHistory
  simpa using h iters []

/-- each recorded entry is the documented objective at the point passed to the callback, and there
    is exactly one entry per callback call.
    NOT guaranteed by the code (scipy's side, see O1–O4 in the header): that the last callback
    point is `result.x`; that there is an entry at all (`nit = 0` gives an empty history, the start
    is never recorded); that `max_iter` bounds the number of entries by `max_iter` when
    `max_iter = 0`; that the entries decrease. -/
theorem history_entry_is_objective (P : LbfgsProb ℝ n p) (iters : List (Fin p → ℝ)) :
    (P.lbfgsHistory iters).length = iters.length ∧
    ∀ (k : Nat) (hk : k < iters.length),
      (P.lbfgsHistory iters)[k]? = some (trueObjective P (iters[k])) := by
  rw [history_eq_map]
  refine ⟨List.length_map _, fun k hk => ?_⟩
  rw [List.getElem?_map, List.getElem?_eq_getElem hk, Option.map_some, objective_eq]

/-- the returned triple, unfolded: `result.x`, the objectives of the callback points, and the
    sup-norm of the true gradient at `result.x` -/
theorem return_eq (P : LbfgsProb ℝ n p) (r : ScipyResult ℝ p) :
    P.lbfgsReturn r
      = (r.x, r.cbIterates.map (trueObjective P), supNorm (trueGrad P r.x)) := by
  unfold LbfgsProb.lbfgsReturn LbfgsProb.lbfgsStop
  rw [history_eq_map, jac_eq]
  congr 2
  exact List.map_congr_left (fun w _ => objective_eq P w)

/-! ### non-vacuity -/

/-- `X = [[1.]]`, `y = [1.]`, `Quadratic()`, `L2(alpha=1.)`: `objective(w) = (1 - w)²/2 + w²/2`,
    `jac(w) = 2 w - 1` -/
noncomputable def witP : LbfgsProb ℝ 1 1 :=
  { X := fun _ _ => 1, y := fun _ => 1, sw := fun _ => 1, df := .quadratic, alpha := 1 }

theorem wit_jac (w : Fin 1 → ℝ) (j : Fin 1) : witP.lbfgsJac w j = 2 * w 0 - 1 := by
  rw [jac_eq]
  fin_cases j
  simp [trueGrad, lin, witP, DF.gradScalar, DF.rawGrad, DF.dloss1, DF.normaliser, DF.lin, vsum_eq]
  ring

theorem wit_objective (w : Fin 1 → ℝ) : witP.lbfgsObjective w = (1 - w 0) ^ 2 / 2 + w 0 ^ 2 / 2 := by
  rw [objective_eq]
  simp [trueObjective, lin, witP, DF.value, DF.loss1, DF.normaliser, DF.lin, vsum_eq]
  ring

theorem wit_convex : ConvexData witP :=
  ⟨fun _ => by simp [witP], by simp [witP, DF.normaliser], fun _ h => (by cases h), fun h => (by cases h)⟩

/-- every hypothesis used in (a)–(d) holds together on the witness: at the cold start `w = 0` the
    criterion is `1` (so a tolerance `1/2` is *not* met), at `w = 1/2` it is `0`, the objective there
    is `1/4` and no point does better; the history of the callback points `[0, 1/2]` is `[1/2, 1/4]` -/
example :
    ConvexData witP ∧ witP.lbfgsStop (fun _ => 0) = 1 ∧ ¬ witP.lbfgsStop (fun _ => 0) ≤ 1 / 2 ∧
    witP.lbfgsStop (fun _ => 1 / 2) = 0 ∧ witP.lbfgsObjective (fun _ => 1 / 2) = 1 / 4 ∧
    (∀ v, (1:ℝ) / 4 ≤ witP.lbfgsObjective v) ∧
    witP.lbfgsHistory [fun _ => 0, fun _ => 1 / 2] = [1 / 2, 1 / 4] := by
  have hstop : ∀ w : Fin 1 → ℝ, witP.lbfgsStop w = |2 * w 0 - 1| := by
    intro w
    simp [LbfgsProb.lbfgsStop, supNorm, Fin.foldl_succ, Fin.foldl_zero, smax_eq, sabs_eq, wit_jac]
  have h0 : witP.lbfgsStop (fun _ => 0) = 1 := by rw [hstop]; norm_num
  have h12 : witP.lbfgsStop (fun _ => 1 / 2) = 0 := by rw [hstop]; norm_num
  have hobj : witP.lbfgsObjective (fun _ => 1 / 2) = 1 / 4 := by rw [wit_objective]; norm_num
  refine ⟨wit_convex, h0, by rw [h0]; norm_num, h12, hobj, fun v => ?_, ?_⟩
  · rw [← hobj]
    exact stop_zero_minimises witP wit_convex (by simp [witP]) _ h12 v
  · rw [history_eq_map]
    simp only [List.map_cons, List.map_nil, wit_objective]
    norm_num

/-- non-vacuity of (b): Logistic datafit on the CSC matrix with column `0 = [(row 0, 2.), (row 0, 1.)]`
    (a duplicate entry) and an empty column `1`; it represents `[[3., 0.]]` -/
example :
    let M : CSC ℝ 1 2 := fun j => if j = 0 then [(0, 2), (0, 1)] else []
    let P : LbfgsProb ℝ 1 2 :=
      { X := ![![3, 0]], y := fun _ => 1, sw := fun _ => 1, df := .logistic, alpha := 1 / 2 }
    M.toDense = P.X ∧ ∀ w, P.lbfgsJacSparse M w = P.lbfgsJac w := by
  intro M P
  have hM : M.toDense = P.X := by
    funext i j
    fin_cases i
    fin_cases j <;> simp [CSC.toDense, M, P]
    norm_num
  exact ⟨hM, fun w => jac_sparse_eq_dense P M w hM⟩

end Skglm.Lbfgs
