import Skglm.Proofs.FISTA
/-
  FISTA (`skglm/solvers/fista.py`) — solver-level properties of the accelerated proximal-gradient
  solver, for the moves of `Skglm/Model/FISTA.lean`.

  The loop carries the iterate `w`, the extrapolated point `z` and `t`; the gradient is taken at
  `z`, the prox step lands on the new `w`; since commit 202760b the criterion is computed from the
  **new `w`** and the gradient recomputed **at the new `w`** (`fistaStop`); before that commit it
  used the gradient **at the old `z`** (`fistaStopOld`).

  * (0) shape of a run: `_solve` is `k` plain passes, `1 ≤ k ≤ max_iter`; `max_iter = 0`.
  * (a) feasibility [C04]: every returned iterate is a prox value, hence feasible — whatever `z`
    was (`z` itself can leave the feasible set: `z_can_be_infeasible`).
  * (b) null columns [C19]: zero gradient entry at every `z`; a zero coefficient stays zero along
    the whole run as soon as `prox(0) = 0`.
  * (c) majorant [C03-like]: `F(w_new) ≤ Q_L(w_new; z) ≤ Q_L(v; z)` for every `v`, hence
    `F(w_new) ≤ F(z)`; the first two passes are descent passes; after that FISTA is **not**
    monotone in `F(w_k)` (`fista_not_monotone`: it walks away from the exact minimiser).
  * (d) criterion [C01/C17]: `stop_is_certificate` — the reported criterion `≤ tol` is a first-order
    certificate at the returned point (same `Spec.Certificate` as C01 / GramCD).  Pre-repair
    behaviour, documented on `fistaStopOld`: what it certified (`stop_certifies_mixed`), a pass that
    reported `0` at a point whose true violation is `5/4` (`stop_value_mixes_points`), and the exact
    minimiser not being recognised (`stop_misses_minimiser`).
-/
namespace Skglm.Fista
open Skglm Skglm.Spec Skglm.Proofs
variable {n p : Nat}

/-! ### (0) shape of a run -/

/-- `_solve` performs `k` passes of the loop body for some `k ≤ max_iter`, `k ≥ 1` unless
    `max_iter = 0`; it returns the `w` of the state after these passes, the `stop_crit` computed by
    the last pass (`critAfter`) and the objectives of `w_1, …, w_k` (`objsAfter`); if it stopped
    before the budget, the returned criterion is `< tol` -/
theorem run_is_iter (P : FistaProb ℝ n p) (fx : Bool) (tol : ℝ) (fuel : Nat) (s : FistaState ℝ p)
    (crit : Ext ℝ) (objs : List (Ext ℝ)) :
    ∃ k, k ≤ fuel ∧ (0 < fuel → 0 < k) ∧
      P.fistaRun fx tol fuel s crit objs
        = (P.fistaIter k s, critAfter P fx s crit k, objs ++ objsAfter P s k) ∧
      (k < fuel → Ext.lt (critAfter P fx s crit k) (.fin tol) = true) :=
  run_spec P fx tol fuel s crit objs

/-- `max_iter = 0`: the start point is returned untouched, `stop_crit = inf`, empty history -/
theorem max_iter_zero (P : FistaProb ℝ n p) (fx : Bool) (tol : ℝ) (w0 : Option (Fin p → ℝ)) :
    P.solve fx tol 0 w0 = (FistaProb.init w0, .inf, []) := rfl

/-- the reported criterion, unfolded: scores of the **new** iterate `(fistaStep s).w` against the
    true gradient of the datafit **at that same point** (recomputed from `X, y, w_new`) -/
theorem stop_eq (P : FistaProb ℝ n p) (fx : Bool) (s : FistaState ℝ p) :
    P.fistaStop fx s
      = P.critOf fx (P.fistaStep s).w (trueGrad P (P.fistaStep s).w) := by
  unfold FistaProb.fistaStop
  dsimp only
  rw [grad_eq]

/-- the pre-repair criterion (before commit 202760b), unfolded: scores of the new iterate against
    the gradient **at the old extrapolated point `s.z`** -/
theorem stopOld_eq (P : FistaProb ℝ n p) (fx : Bool) (s : FistaState ℝ p) :
    P.fistaStopOld fx s = P.critOf fx (P.fistaStep s).w (trueGrad P s.z) := by
  unfold FistaProb.fistaStopOld
  rw [grad_eq]

/-- the gradient the loop computes at a point is the true gradient of the datafit there (from
    `X, y` and the point alone; used at `z` for the step and at the new `w` for the criterion) -/
theorem grad_is_true_gradient_at_z (P : FistaProb ℝ n p) (z : Fin p → ℝ) :
    P.grad z = trueGrad P z := grad_eq P z

/-! ### (a) feasibility [C04] -/

/-- every new iterate is feasible — no hypothesis on the state: `z` may be infeasible, `w` may be
    infeasible, the step is `prox(·, 1/L)` coordinate by coordinate -/
theorem step_feasible (P : FistaProb ℝ n p) (s : FistaState ℝ p)
    (hadm : ∀ j, Admissible P.pen (P.wts j) (1 / P.L)) : Feasible P (P.fistaStep s).w :=
  fistaStep_feasible P s hadm

/-- the returned iterate is feasible: after at least one pass from any start, after zero passes
    from a feasible start -/
theorem run_feasible (P : FistaProb ℝ n p) (fx : Bool) (tol : ℝ) (fuel : Nat) (s : FistaState ℝ p)
    (crit : Ext ℝ) (objs : List (Ext ℝ))
    (hadm : ∀ j, Admissible P.pen (P.wts j) (1 / P.L)) (h : 0 < fuel ∨ Feasible P s.w) :
    Feasible P (P.fistaRun fx tol fuel s crit objs).1.w := by
  obtain ⟨k, _, hpos, hrun, _⟩ := run_spec P fx tol fuel s crit objs
  rw [hrun]
  exact fistaIter_feasible P k s hadm (h.imp_left hpos)

/-- `_solve` from `w_init` (or zeros): feasible output if `max_iter ≥ 1` or the start is feasible -/
theorem solve_feasible (P : FistaProb ℝ n p) (fx : Bool) (tol : ℝ) (maxIter : Nat)
    (w0 : Option (Fin p → ℝ)) (hadm : ∀ j, Admissible P.pen (P.wts j) (1 / P.L))
    (h : 0 < maxIter ∨ Feasible P (FistaProb.init w0).w) :
    Feasible P (P.solve fx tol maxIter w0).1.w :=
  run_feasible P fx tol maxIter _ _ _ hadm h

/-- the cold start is feasible for every penalty except a box with a negative upper bound -/
theorem cold_start_feasible (P : FistaProb ℝ n p) (hbox : ∀ a, P.pen = .box a → 0 ≤ a) :
    Feasible P (FistaProb.init (none : Option (Fin p → ℝ))).w := by
  intro j
  refine CDB.pen_isSome_of _ _ _ ?_ ?_
  · rintro ⟨_, h⟩; exact lt_irrefl _ h
  · intro a ha; exact ⟨le_refl _, hbox a ha⟩

/-- the extrapolated point is *not* kept feasible: `PositiveConstraint`, `X = (1)`, `y = (0)`,
    `L = 1`, state `w = z = 2`, `t = 2`: the pass gives `w = 0` and `z = -2 / t_new < 0` -/
theorem z_can_be_infeasible :
    ∃ (P : FistaProb ℝ 1 1) (s : FistaState ℝ 1),
      (∀ j, Admissible P.pen (P.wts j) (1 / P.L)) ∧ Feasible P s.w ∧ Feasible P s.z ∧
      Feasible P (P.fistaStep s).w ∧ ¬ Feasible P (P.fistaStep s).z := by
  let P : FistaProb ℝ 1 1 :=
    { X := fun _ _ => 1, y := fun _ => 0, sw := fun _ => 1, df := .quadratic, pen := .pos,
      wts := fun _ => 1, L := 1 }
  let s : FistaState ℝ 1 := { w := fun _ => 2, z := fun _ => 2, t := 2 }
  have hadm : ∀ j, Admissible P.pen (P.wts j) (1 / P.L) := by
    intro j
    exact ⟨by norm_num [P], by norm_num [P], trivial⟩
  have hw : ∀ j, (P.fistaStep s).w j = 0 := by
    intro j
    rw [step_w]
    simp [P, s, trueGrad, lin, DF.gradScalar, DF.rawGrad, DF.dloss1, DF.normaliser, DF.lin, vsum_eq,
      SepPen.prox1, smax_eq]
  refine ⟨P, s, hadm, ?_, ?_, step_feasible P s hadm, ?_⟩
  · intro j; simp [P, s, pen, SepPen.positive]
  · intro j; simp [P, s, pen, SepPen.positive]
  · intro h
    have h0 := h 0
    rw [step_z, hw 0] at h0
    have ht : 0 < FistaProb.tNext (2:ℝ) := lt_of_lt_of_le one_pos (tNext_pos 2)
    have hneg : (0:ℝ) + (s.t - 1) / FistaProb.tNext s.t * (0 - s.w 0) < 0 := by
      simp only [s]
      have : (2 - 1) / FistaProb.tNext (2:ℝ) * (0 - 2) = -(2 / FistaProb.tNext (2:ℝ)) := by ring
      rw [zero_add, this]
      exact neg_lt_zero.2 (div_pos two_pos ht)
    simp only [pen, P, SepPen.positive, true_and, hneg, if_true] at h0
    exact absurd h0 (by simp)

/-! ### (b) null columns [C19] -/

/-- a zero column of `X` has a zero gradient entry at **every** point `z` (every datafit but the
    SVC dual, whose linear term gives `-1`) -/
theorem grad_zero_column (P : FistaProb ℝ n p) (z : Fin p → ℝ) (j : Fin p)
    (hcol : ∀ i, P.X i j = 0) (hlin : P.df.lin = 0) : P.grad z j = 0 := by
  rw [grad_eq, trueGrad_zero_column P z j hcol, hlin]

/-- one pass: from `w_j = z_j = 0` the coordinate of a null column stays `0` in `w` and in `z`,
    as soon as the prox maps `0` to `0` at step `1/L` -/
theorem step_zero_column (P : FistaProb ℝ n p) (s : FistaState ℝ p) (j : Fin p)
    (hcol : ∀ i, P.X i j = 0) (hlin : P.df.lin = 0)
    (hprox0 : P.pen.prox1 (P.wts j) 0 (1 / P.L) = 0) (hw : s.w j = 0) (hz : s.z j = 0) :
    (P.fistaStep s).w j = 0 ∧ (P.fistaStep s).z j = 0 :=
  fistaStep_zero_column P s j hcol hlin hprox0 hw hz

/-- the condition `prox(0) = 0` holds for the sparsity penalties (L1, weighted L1, elastic net, MCP,
    weighted MCP, with or without positivity) with parameters in range, for every `L ≥ 0`
    (over ℝ, `1 / 0 = 0`; in floating point `L = 0` gives `step = inf` and `inf * 0 = nan`) -/
theorem prox_zero_of_sparsity (P : FistaProb ℝ n p) (j : Fin p)
    (hpen : C19.SparsityPen P.pen (P.wts j)) (hL : 0 ≤ P.L) :
    P.pen.prox1 (P.wts j) 0 (1 / P.L) = 0 :=
  C19.prox1_zero _ _ _ hpen (one_div_nonneg.2 hL)

/-- … and for the two indicator penalties -/
theorem prox_zero_of_indicator (P : FistaProb ℝ n p) (j : Fin p)
    (hpen : P.pen = .pos ∨ ∃ a, P.pen = .box a ∧ 0 ≤ a) :
    P.pen.prox1 (P.wts j) 0 (1 / P.L) = 0 := by
  rcases hpen with h | ⟨a, h, ha⟩ <;> rw [h]
  · simp [SepPen.prox1, smax_eq]
  · simp only [SepPen.prox1, box_proj]
    rw [if_neg (not_lt.2 ha), if_neg (lt_irrefl _)]

/-- along the whole run: the returned coefficient of a null column is `0` when it started at `0`
    (cold start, or `w_init[j] = 0`) -/
theorem run_zero_column (P : FistaProb ℝ n p) (fx : Bool) (tol : ℝ) (fuel : Nat)
    (s : FistaState ℝ p) (crit : Ext ℝ) (objs : List (Ext ℝ)) (j : Fin p)
    (hcol : ∀ i, P.X i j = 0) (hlin : P.df.lin = 0)
    (hprox0 : P.pen.prox1 (P.wts j) 0 (1 / P.L) = 0) (hw : s.w j = 0) (hz : s.z j = 0) :
    (P.fistaRun fx tol fuel s crit objs).1.w j = 0 := by
  obtain ⟨k, _, _, hrun, _⟩ := run_spec P fx tol fuel s crit objs
  rw [hrun]
  exact (fistaIter_zero_column P k s j hcol hlin hprox0 hw hz).1

/-- cold start of `_solve`, sparsity penalty -/
theorem solve_zero_column (P : FistaProb ℝ n p) (fx : Bool) (tol : ℝ) (maxIter : Nat) (j : Fin p)
    (hcol : ∀ i, P.X i j = 0) (hlin : P.df.lin = 0)
    (hpen : C19.SparsityPen P.pen (P.wts j)) (hL : 0 ≤ P.L) :
    (P.solve fx tol maxIter none).1.w j = 0 :=
  run_zero_column P fx tol maxIter _ _ _ j hcol hlin (prox_zero_of_sparsity P j hpen hL) rfl rfl

/-! ### (c) the majorant [C03-like] -/

/-- with `L` at least the global Lipschitz constant, the objective at **any** point `v` is below the
    model `Q_L(v; z)` built at **any** point `z` (descent lemma; convexity of the penalty not used) -/
theorem objective_le_model (P : FistaProb ℝ n p) (hP : WellPosed P) (hL : GlobalLipschitz P)
    (z v : Fin p → ℝ) : Ext.le (P.fistaObjective v) (Q P z v) = true := objective_le_Q P hP hL z v

/-- the pass minimises the model built at the extrapolated point:
    `F(w_new) ≤ Q_L(w_new; z) ≤ Q_L(v; z)` for every `v` (only global optimality of the prox is
    used: convex penalties, MCP inside its range, the indicators) -/
theorem step_majorant (P : FistaProb ℝ n p) (s : FistaState ℝ p) (hP : WellPosed P)
    (hL : GlobalLipschitz P) (hLpos : 0 < P.L) (hprox : ∀ j, ProxOptimal P j (1 / P.L))
    (hg : ∀ a g pos, P.pen = .mcp a g pos ∨ P.pen = .wmcp a g pos → 0 < g) :
    Ext.le (P.fistaObjective (P.fistaStep s).w) (Q P s.z (P.fistaStep s).w) = true ∧
    ∀ v, Ext.le (Q P s.z (P.fistaStep s).w) (Q P s.z v) = true :=
  ⟨objective_le_Q P hP hL _ _, Q_step_le P s hLpos hprox hg⟩

/-- in particular `F(w_new) ≤ F(z)` (vacuous when `penalty.value(z) = inf`, i.e. `z` infeasible):
    the descent is relative to the *extrapolated* point, not to the previous iterate -/
theorem step_le_objective_z (P : FistaProb ℝ n p) (s : FistaState ℝ p) (hP : WellPosed P)
    (hL : GlobalLipschitz P) (hLpos : 0 < P.L) (hprox : ∀ j, ProxOptimal P j (1 / P.L))
    (hg : ∀ a g pos, P.pen = .mcp a g pos ∨ P.pen = .wmcp a g pos → 0 < g) :
    Ext.le (P.fistaObjective (P.fistaStep s).w) (P.fistaObjective s.z) = true := by
  have h := step_majorant P s hP hL hLpos hprox hg
  have h2 := h.2 s.z
  rw [Q_self] at h2
  exact Ext_le_trans _ _ _ h.1 h2

/-- a pass entered with `t = 1` has no momentum: the new `z` is the new `w` -/
theorem step_no_momentum (P : FistaProb ℝ n p) (s : FistaState ℝ p) (ht : s.t = 1) :
    (P.fistaStep s).z = (P.fistaStep s).w := by
  funext j
  rw [step_z, ht]
  simp

/-- hence the first two passes of `_solve` are plain ISTA passes and do not increase the objective:
    `F(w_2) ≤ F(w_1) ≤ F(w_0)`.  Nothing of the kind holds from the third pass on
    (`fista_not_monotone`). -/
theorem first_two_passes_descent (P : FistaProb ℝ n p) (w0 : Option (Fin p → ℝ)) (hP : WellPosed P)
    (hL : GlobalLipschitz P) (hLpos : 0 < P.L) (hprox : ∀ j, ProxOptimal P j (1 / P.L))
    (hg : ∀ a g pos, P.pen = .mcp a g pos ∨ P.pen = .wmcp a g pos → 0 < g) :
    Ext.le (P.fistaObjective (P.fistaIter 1 (FistaProb.init w0)).w)
      (P.fistaObjective (FistaProb.init w0).w) = true ∧
    Ext.le (P.fistaObjective (P.fistaIter 2 (FistaProb.init w0)).w)
      (P.fistaObjective (P.fistaIter 1 (FistaProb.init w0)).w) = true := by
  have hz0 : (FistaProb.init w0).z = (FistaProb.init w0).w := by cases w0 <;> rfl
  have ht0 : (FistaProb.init w0).t = 1 := by cases w0 <;> rfl
  constructor
  · have h := step_le_objective_z P (FistaProb.init w0) hP hL hLpos hprox hg
    rw [hz0] at h
    exact h
  · have h := step_le_objective_z P (P.fistaStep (FistaProb.init w0)) hP hL hLpos hprox hg
    rw [step_no_momentum P _ ht0] at h
    exact h

/-- the prox-optimality hypothesis is discharged by C07 for the penalties it covers -/
theorem proxOptimal_of_admissible (P : FistaProb ℝ n p) (j : Fin p) (st : ℝ)
    (hpen : (∃ a pos, P.pen = .l1 a pos) ∨ (∃ a pos, P.pen = .wl1 a pos) ∨
            (∃ a r pos, P.pen = .l1l2 a r pos) ∨
            (∃ a g pos, P.pen = .mcp a g pos) ∨ (∃ a g pos, P.pen = .wmcp a g pos) ∨
            (∃ a, P.pen = .box a) ∨ P.pen = .pos)
    (hadm : Admissible P.pen (P.wts j) st) : ProxOptimal P j st := by
  intro x v
  rcases hpen with ⟨a, pos, hp⟩ | ⟨a, pos, hp⟩ | ⟨a, r, pos, hp⟩ | ⟨a, g, pos, hp⟩ |
    ⟨a, g, pos, hp⟩ | ⟨a, hp⟩ | hp <;> rw [hp] at hadm ⊢
  · exact C07.prox_l1 a pos _ x st hadm v
  · exact C07.prox_wl1 a pos _ x st hadm v
  · exact C07.prox_l1l2 a r pos _ x st hadm v
  · exact C07.prox_mcp a g pos _ x st hadm v
  · exact C07.prox_wmcp a g pos _ x st hadm v
  · exact C07.prox_box a _ x st hadm v
  · exact C07.prox_pos _ x st hadm v

/-! ### the witness problem -/

/-- `X = [[3, 1], [1, 3]]`, `y = (y0, y1)`, Quadratic datafit, `L1(alpha=4)`;
    `L = numpy.linalg.norm(X, ord=2) ** 2 / 2 = 4 ** 2 / 2 = 8` (numpy returns `8.000000000000004`;
    the witnesses below keep a margin at every threshold, so the runs agree with the library) -/
noncomputable def witP (y0 y1 : ℝ) : FistaProb ℝ 2 2 :=
  { X := ![![3, 1], ![1, 3]], y := ![y0, y1], sw := fun _ => 1, df := .quadratic,
    pen := .l1 4 false, wts := fun _ => 1, L := 8 }

theorem state_ext (a b : FistaState ℝ p) (hw : a.w = b.w) (hz : a.z = b.z) (ht : a.t = b.t) :
    a = b := by
  cases a; cases b; simp_all

theorem wit_grad (y0 y1 : ℝ) (z : Fin 2 → ℝ) :
    trueGrad (witP y0 y1) z
      = ![5 * z 0 + 3 * z 1 - (3 * y0 + y1) / 2, 3 * z 0 + 5 * z 1 - (y0 + 3 * y1) / 2] := by
  funext j
  fin_cases j <;>
    simp [trueGrad, lin, witP, DF.gradScalar, DF.rawGrad, DF.dloss1, DF.normaliser, DF.lin, vsum_eq,
      Fin.sum_univ_two] <;> ring

theorem wit_step_w (y0 y1 : ℝ) (s : FistaState ℝ 2) (j : Fin 2) :
    ((witP y0 y1).fistaStep s).w j
      = ST (s.z j - 1 / 8 * trueGrad (witP y0 y1) s.z j) (1 / 2) false := by
  rw [step_w]
  simp only [witP, SepPen.prox1]
  norm_num

/-- every hypothesis of the theorems of (a) and (c) holds for the witness problem: the data are
    well posed, `L = 8` *is* the global Lipschitz constant (`8‖d‖² - dᵀ(XᵀX/2)d = 3(d₀ - d₁)²`),
    the step `1/8` is admissible and the prox is optimal -/
theorem wit_hyps (y0 y1 : ℝ) :
    WellPosed (witP y0 y1) ∧ GlobalLipschitz (witP y0 y1) ∧ 0 < (witP y0 y1).L ∧
    (∀ j, Admissible (witP y0 y1).pen ((witP y0 y1).wts j) (1 / (witP y0 y1).L)) ∧
    (∀ j, ProxOptimal (witP y0 y1) j (1 / (witP y0 y1).L)) := by
  have hadm : ∀ j, Admissible (witP y0 y1).pen ((witP y0 y1).wts j) (1 / (witP y0 y1).L) := by
    intro j
    refine ⟨by norm_num [witP], by norm_num [witP], ?_⟩
    show (0:ℝ) ≤ 4
    norm_num
  refine ⟨⟨fun i => (by simp [witP]), (by simp [witP, DF.normaliser]), fun h => (by cases h),
    fun d h => (by cases h)⟩, ⟨1, rfl, fun d => ?_⟩, (by norm_num [witP]), hadm, fun j => ?_⟩
  · simp [witP, DF.normaliser, Fin.sum_univ_two]
    nlinarith [sq_nonneg (d 0 - d 1)]
  · exact proxOptimal_of_admissible _ j _ (Or.inl ⟨4, false, rfl⟩) (hadm j)

/-! ### (c, continued) FISTA is not monotone -/

/-- the momentum coefficient of the third pass, `(t_2 - 1) / t_3` with `t_1 = 1`,
    `t_2 = (1 + √5)/2`, `t_3 = (1 + √(1 + 4 t_2²))/2` (≈ 0.2817), is larger than `4/15` -/
theorem beta2_gt : (4:ℝ) / 15 < (FistaProb.tNext (1:ℝ) - 1) / FistaProb.tNext (FistaProb.tNext (1:ℝ)) := by
  have e2 : FistaProb.tNext (1:ℝ) = (1 + Real.sqrt 5) / 2 := by
    rw [tNext_eq]; norm_num
  have h5 : (2236:ℝ) / 1000 ≤ Real.sqrt 5 := (Real.le_sqrt' (by norm_num)).2 (by norm_num)
  have h5' : Real.sqrt 5 < 224 / 100 := (Real.sqrt_lt' (by norm_num)).2 (by norm_num)
  have ht2l : (1618:ℝ) / 1000 ≤ FistaProb.tNext (1:ℝ) := by rw [e2]; linarith
  have ht2u : FistaProb.tNext (1:ℝ) < 162 / 100 := by rw [e2]; linarith
  generalize FistaProb.tNext (1:ℝ) = t2 at ht2l ht2u
  have hb : Real.sqrt (1 + 4 * t2 ^ 2) < 36 / 10 := (Real.sqrt_lt' (by norm_num)).2 (by nlinarith)
  have ht3u : FistaProb.tNext t2 < 23 / 10 := by rw [tNext_eq]; linarith
  have ht3p : 0 < FistaProb.tNext t2 := lt_of_lt_of_le one_pos (tNext_pos t2)
  rw [lt_div_iff₀ ht3p]
  linarith


/-- `_solve(X, y, Quadratic(), L1(4.), w_init=np.array([1., -4.]))` with `X = [[3, 1], [1, 3]]`,
    `y = (-3, 3)`: the iterates are `w_1 = (1, -1)`, `w_2 = (0, 0)` — the exact minimiser — and
    `w_3 = (-c, c)` with `c = (6 β₂ - 1)/8 ≈ 0.0863`: the momentum term `β₂ (w_2 - w_1)` pushes the
    extrapolated point away from the minimiser and the objective goes `20.5, 4.5, 4.6875…` -/
noncomputable def nmStart : FistaState ℝ 2 := FistaProb.init (some ![1, -4])

theorem nm_w1 : ((witP (-3) 3).fistaStep nmStart).w = ![1, -1] := by
  funext j
  rw [wit_step_w, wit_grad]
  fin_cases j <;> simp [nmStart, FistaProb.init, ST] <;> norm_num

theorem nm_pass1 : (witP (-3) 3).fistaStep nmStart
    = { w := ![1, -1], z := ![1, -1], t := FistaProb.tNext 1 } := by
  refine state_ext _ _ nm_w1 ?_ rfl
  rw [step_no_momentum _ _ (by rfl), nm_w1]

theorem nm_w2 : ((witP (-3) 3).fistaStep { w := ![1, -1], z := ![1, -1], t := FistaProb.tNext 1 }).w
    = ![0, 0] := by
  funext j
  rw [wit_step_w, wit_grad]
  fin_cases j <;> simp [ST] <;> norm_num


/-- `β₂ = (t_2 - 1) / t_3` -/
noncomputable def beta2 : ℝ := (FistaProb.tNext (1:ℝ) - 1) / FistaProb.tNext (FistaProb.tNext (1:ℝ))

theorem nm_pass2 :
    (witP (-3) 3).fistaStep { w := ![1, -1], z := ![1, -1], t := FistaProb.tNext 1 }
      = { w := ![0, 0], z := ![-beta2, beta2], t := FistaProb.tNext (FistaProb.tNext 1) } := by
  refine state_ext _ _ nm_w2 ?_ rfl
  funext j
  rw [step_z, nm_w2]
  fin_cases j <;> simp [beta2]

theorem nm_w3 (b t : ℝ) (hb : 1 / 6 < b) :
    ((witP (-3) 3).fistaStep { w := ![0, 0], z := ![-b, b], t := t }).w
      = ![-((6 * b - 1) / 8), (6 * b - 1) / 8] := by
  funext j
  rw [wit_step_w, wit_grad]
  fin_cases j
  · simp only [ST]
    simp
    rw [if_neg (by linarith), if_pos (by linarith)]
    ring
  · simp only [ST]
    simp
    rw [if_pos (by linarith)]
    ring

theorem wit_objective (y0 y1 : ℝ) (w : Fin 2 → ℝ) :
    (witP y0 y1).fistaObjective w
      = .fin (((y0 - (3 * w 0 + w 1)) ^ 2 + (y1 - (w 0 + 3 * w 1)) ^ 2) / 4
          + (4 * |w 0| + 4 * |w 1|)) := by
  rw [objective_eq]
  simp [smooth, lin, witP, DF.value, DF.loss1, DF.normaliser, DF.lin, vsum_eq, Fin.sum_univ_two,
    SepPen.value, esum, SepPen.pen1, SepPen.positive, Fin.foldl_succ, Fin.foldl_zero, Ext.add, sabs_eq]
  ring


theorem wit_critOf (y0 y1 : ℝ) (w g : Fin 2 → ℝ) :
    (witP y0 y1).critOf false w g
      = Ext.max (Ext.max (.fin 0) ((SepPen.l1 (4:ℝ) false).sd1 1 (w 0) (g 0)))
          ((SepPen.l1 (4:ℝ) false).sd1 1 (w 1) (g 1)) := by
  simp [FistaProb.critOf, FistaProb.scores, Fin.foldl_succ, Fin.foldl_zero, witP]

theorem sd_l1_zero (a g : ℝ) : (SepPen.l1 a false).sd1 1 0 g = .fin (max 0 (|g| - a)) := by
  simp [SepPen.sd1, SepPen.sdZero, eqb, sabs_eq, smax_eq]

theorem sd_l1_pos (a w g : ℝ) (hw : 0 < w) : (SepPen.l1 a false).sd1 1 w g = .fin |g + a| := by
  have : eqb w 0 = false := (eqb_false_iff _ _).2 hw.ne'
  simp [SepPen.sd1, this, sgn_pos hw, sabs_eq]

theorem sd_l1_neg (a w g : ℝ) (hw : w < 0) : (SepPen.l1 a false).sd1 1 w g = .fin |g - a| := by
  have : eqb w 0 = false := (eqb_false_iff _ _).2 hw.ne
  simp [SepPen.sd1, this, sgn_neg hw, sabs_eq]
  congr 1

theorem nm_crit1 : (witP (-3) 3).fistaStop false nmStart = .fin 9 := by
  rw [stop_eq, nm_w1, wit_critOf, wit_grad]
  simp only [Matrix.cons_val_zero, Matrix.cons_val_one]
  rw [sd_l1_pos _ _ _ one_pos, sd_l1_neg _ _ _ (by norm_num)]
  simp [Ext.max, smax_eq]
  norm_num

/-- the repaired criterion recognises the minimiser `w_2 = (0, 0)` … -/
theorem nm_crit2 : (witP (-3) 3).fistaStop false
    { w := ![1, -1], z := ![1, -1], t := FistaProb.tNext 1 } = .fin 0 := by
  rw [stop_eq, nm_w2, wit_critOf, wit_grad]
  simp only [Matrix.cons_val_zero, Matrix.cons_val_one]
  rw [sd_l1_zero, sd_l1_zero]
  simp [Ext.max, smax_eq]
  norm_num

/-- … the pre-repair one reported `1` there -/
theorem nm_critOld2 : (witP (-3) 3).fistaStopOld false
    { w := ![1, -1], z := ![1, -1], t := FistaProb.tNext 1 } = .fin 1 := by
  rw [stopOld_eq, nm_w2, wit_critOf, wit_grad]
  simp only [Matrix.cons_val_zero, Matrix.cons_val_one]
  rw [sd_l1_zero, sd_l1_zero]
  simp [Ext.max, smax_eq]
  norm_num


theorem beta2_gt' : 4 / 15 < beta2 := beta2_gt

/-- the overshoot `c = (6 β₂ - 1) / 8 > 0` (≈ 0.0863) -/
noncomputable def nmC : ℝ := (6 * beta2 - 1) / 8

theorem nmC_pos : 0 < nmC := by
  unfold nmC
  linarith [beta2_gt']

theorem nm_iter2 : (witP (-3) 3).fistaIter 2 nmStart
    = { w := ![0, 0], z := ![-beta2, beta2], t := FistaProb.tNext (FistaProb.tNext 1) } := by
  show (witP (-3) 3).fistaStep ((witP (-3) 3).fistaStep nmStart) = _
  rw [nm_pass1, nm_pass2]

theorem nm_iter3_w : ((witP (-3) 3).fistaIter 3 nmStart).w = ![-nmC, nmC] := by
  rw [iter_succ', nm_iter2, nm_w3 _ _ (by linarith [beta2_gt'])]
  rfl

theorem nm_obj1 : (witP (-3) 3).fistaObjective ![1, -1] = .fin (41 / 2) := by
  rw [wit_objective]; norm_num

theorem nm_obj2 : (witP (-3) 3).fistaObjective ![0, 0] = .fin (9 / 2) := by
  rw [wit_objective]; norm_num

theorem nm_obj3 : (witP (-3) 3).fistaObjective ![-nmC, nmC]
    = .fin (9 / 2 + 2 * nmC + 2 * nmC ^ 2) := by
  rw [wit_objective]
  simp only [Matrix.cons_val_zero, Matrix.cons_val_one, abs_neg, abs_of_pos nmC_pos]
  congr 1
  ring

/-- `w = 0` is the exact minimiser of the witness problem -/
theorem nm_zero_is_minimiser (v : Fin 2 → ℝ) :
    Ext.le ((witP (-3) 3).fistaObjective ![0, 0]) ((witP (-3) 3).fistaObjective v) = true := by
  rw [nm_obj2, wit_objective]
  apply CDB.fin_le_fin
  nlinarith [le_abs_self (v 0), neg_abs_le (v 0), le_abs_self (v 1), neg_abs_le (v 1),
    sq_nonneg (3 * v 0 + v 1), sq_nonneg (v 0 + 3 * v 1)]

theorem nm_history (tol : ℝ) (htol : tol ≤ 0) :
    (witP (-3) 3).solve false tol 3 (some ![1, -4])
      = ((witP (-3) 3).fistaIter 3 nmStart,
         (witP (-3) 3).fistaStop false ((witP (-3) 3).fistaIter 2 nmStart),
         [.fin (41 / 2), .fin (9 / 2), .fin (9 / 2 + 2 * nmC + 2 * nmC ^ 2)]) := by
  have h1 : Ext.lt (Ext.fin (9:ℝ)) (.fin tol) = false := by
    simp only [Ext.lt, decide_eq_false_iff_not, not_lt]; linarith
  have h2 : Ext.lt (Ext.fin (0:ℝ)) (.fin tol) = false := by
    simp only [Ext.lt, decide_eq_false_iff_not, not_lt]; linarith
  unfold FistaProb.solve
  show (witP (-3) 3).fistaRun false tol (2 + 1) nmStart .inf [] = _
  rw [FistaProb.fistaRun]
  simp only [nm_crit1, h1, Bool.false_eq_true, if_false, nm_pass1]
  rw [FistaProb.fistaRun]
  simp only [nm_crit2, h2, Bool.false_eq_true, if_false, nm_pass2]
  rw [FistaProb.fistaRun]
  simp only [FistaProb.fistaRun, ite_self]
  rw [iter_succ', nm_iter2, nm_w3 _ _ (by linarith [beta2_gt']), nm_obj1, nm_obj2]
  have h3 := nm_obj3
  unfold nmC at h3 ⊢
  rw [h3]
  rfl


/-- **FISTA is not monotone** (so C03 must not be claimed for it).  For the witness problem — well
    posed, `L` equal to the global Lipschitz constant, optimal prox — the call
    `FISTA(max_iter=3, tol=0.)._solve(X, y, Quadratic(), L1(4.), w_init=[1., -4.])` (any `tol ≤ 0`)
    returns the objective history `[41/2, 9/2, 9/2 + 2c + 2c²]` with `c > 0`: the third pass
    *increases* the objective, although the second iterate was a global minimiser.  (With `tol > 0`
    the repaired criterion is `0` at `w_2` and the loop stops there; before commit 202760b it was `1`
    and the history above was returned for every `tol ≤ 1`.  For a run with `tol > 0` see
    `fista_not_monotone_pos_tol`.) -/
theorem fista_not_monotone :
    ∃ (P : FistaProb ℝ 2 2) (w0 : Fin 2 → ℝ) (c : ℝ),
      WellPosed P ∧ GlobalLipschitz P ∧ 0 < P.L ∧ (∀ j, ProxOptimal P j (1 / P.L)) ∧ 0 < c ∧
      (∀ tol ≤ 0, (P.solve false tol 3 (some w0)).2.2
          = [.fin (41 / 2), .fin (9 / 2), .fin (9 / 2 + 2 * c + 2 * c ^ 2)]) ∧
      (∀ v, Ext.le (P.fistaObjective (P.fistaIter 2 (FistaProb.init (some w0))).w)
          (P.fistaObjective v) = true) ∧
      Ext.lt (P.fistaObjective (P.fistaIter 2 (FistaProb.init (some w0))).w)
        (P.fistaObjective (P.fistaIter 3 (FistaProb.init (some w0))).w) = true := by
  obtain ⟨h1, h2, h3, _, h5⟩ := wit_hyps (-3) 3
  refine ⟨witP (-3) 3, ![1, -4], nmC, h1, h2, h3, h5, nmC_pos, fun tol htol => ?_, fun v => ?_, ?_⟩
  · rw [nm_history tol htol]
  · show Ext.le ((witP (-3) 3).fistaObjective ((witP (-3) 3).fistaIter 2 nmStart).w) _ = true
    rw [nm_iter2]
    exact nm_zero_is_minimiser v
  · show Ext.lt ((witP (-3) 3).fistaObjective ((witP (-3) 3).fistaIter 2 nmStart).w)
      ((witP (-3) 3).fistaObjective ((witP (-3) 3).fistaIter 3 nmStart).w) = true
    rw [nm_iter2, nm_iter3_w, nm_obj2, nm_obj3]
    simp only [Ext.lt, decide_eq_true_eq]
    nlinarith [nmC_pos]

/-! #### a second run, with a positive tolerance -/

/-- `_solve(X, y, Quadratic(), L1(4.), w_init=np.array([5., 0.]))` with `y = (-4, 3)`: the iterates
    are `w_1 = (13/16, -17/16)`, `w_2 = (0, 0)` — *not* a minimiser, its true violation is `1/2` — and
    `w_3 = (-a, a - 1/4)` with `a = 45 β₂ / 64 + 1/16 ≈ 0.2606`; the objective goes
    `21.9453…, 6.25, 6.2974…` -/
noncomputable def pmStart : FistaState ℝ 2 := FistaProb.init (some ![5, 0])

theorem pm_w1 : ((witP (-4) 3).fistaStep pmStart).w = ![13 / 16, -(17 / 16)] := by
  funext j
  rw [wit_step_w, wit_grad]
  fin_cases j <;> simp [pmStart, FistaProb.init, ST] <;> norm_num

theorem pm_pass1 : (witP (-4) 3).fistaStep pmStart
    = { w := ![13 / 16, -(17 / 16)], z := ![13 / 16, -(17 / 16)], t := FistaProb.tNext 1 } := by
  refine state_ext _ _ pm_w1 ?_ rfl
  rw [step_no_momentum _ _ (by rfl), pm_w1]

theorem pm_w2 : ((witP (-4) 3).fistaStep
    { w := ![13 / 16, -(17 / 16)], z := ![13 / 16, -(17 / 16)], t := FistaProb.tNext 1 }).w
    = ![0, 0] := by
  funext j
  rw [wit_step_w, wit_grad]
  fin_cases j <;> simp [ST] <;> norm_num

theorem pm_pass2 :
    (witP (-4) 3).fistaStep
        { w := ![13 / 16, -(17 / 16)], z := ![13 / 16, -(17 / 16)], t := FistaProb.tNext 1 }
      = { w := ![0, 0], z := ![-(13 / 16 * beta2), 17 / 16 * beta2],
          t := FistaProb.tNext (FistaProb.tNext 1) } := by
  refine state_ext _ _ pm_w2 ?_ rfl
  funext j
  rw [step_z, pm_w2]
  fin_cases j <;> simp [beta2] <;> ring

theorem pm_w3 (b t : ℝ) (hb : 4 / 15 < b) :
    ((witP (-4) 3).fistaStep { w := ![0, 0], z := ![-(13 / 16 * b), 17 / 16 * b], t := t }).w
      = ![-(45 * b / 64 + 1 / 16), 45 * b / 64 + 1 / 16 - 1 / 4] := by
  funext j
  rw [wit_step_w, wit_grad]
  fin_cases j
  · simp only [ST]
    simp
    rw [if_neg (by linarith), if_pos (by linarith)]
    ring
  · simp only [ST]
    simp
    rw [if_pos (by linarith)]
    ring

/-- `a = 45 β₂ / 64 + 1/16 > 1/4` -/
noncomputable def pmA : ℝ := 45 * beta2 / 64 + 1 / 16

theorem pmA_gt : 1 / 4 < pmA := by
  unfold pmA
  linarith [beta2_gt']

theorem pm_iter2 : (witP (-4) 3).fistaIter 2 pmStart
    = { w := ![0, 0], z := ![-(13 / 16 * beta2), 17 / 16 * beta2],
        t := FistaProb.tNext (FistaProb.tNext 1) } := by
  show (witP (-4) 3).fistaStep ((witP (-4) 3).fistaStep pmStart) = _
  rw [pm_pass1, pm_pass2]

theorem pm_iter3_w : ((witP (-4) 3).fistaIter 3 pmStart).w = ![-pmA, pmA - 1 / 4] := by
  rw [iter_succ', pm_iter2, pm_w3 _ _ beta2_gt']
  rfl

theorem pm_obj1 : (witP (-4) 3).fistaObjective ![13 / 16, -(17 / 16)] = .fin (2809 / 128) := by
  rw [wit_objective]; norm_num

theorem pm_obj2 : (witP (-4) 3).fistaObjective ![0, 0] = .fin (25 / 4) := by
  rw [wit_objective]; norm_num

theorem pm_obj3 : (witP (-4) 3).fistaObjective ![-pmA, pmA - 1 / 4]
    = .fin (2 * pmA ^ 2 + pmA / 2 + 193 / 32) := by
  rw [wit_objective]
  have h1 : (0:ℝ) < pmA := by linarith [pmA_gt]
  have h2 : (0:ℝ) < pmA - 1 / 4 := by linarith [pmA_gt]
  simp only [Matrix.cons_val_zero, Matrix.cons_val_one, abs_neg, abs_of_pos h1, abs_of_pos h2]
  congr 1
  ring

theorem pm_crit1 : (witP (-4) 3).fistaStop false pmStart = .fin (75 / 8) := by
  rw [stop_eq, pm_w1, wit_critOf, wit_grad]
  simp only [Matrix.cons_val_zero, Matrix.cons_val_one]
  rw [sd_l1_pos _ _ _ (by norm_num), sd_l1_neg _ _ _ (by norm_num)]
  simp [Ext.max, smax_eq]
  norm_num

theorem pm_crit2 : (witP (-4) 3).fistaStop false
    { w := ![13 / 16, -(17 / 16)], z := ![13 / 16, -(17 / 16)], t := FistaProb.tNext 1 }
      = .fin (1 / 2) := by
  rw [stop_eq, pm_w2, wit_critOf, wit_grad]
  simp only [Matrix.cons_val_zero, Matrix.cons_val_one]
  rw [sd_l1_zero, sd_l1_zero]
  simp [Ext.max, smax_eq]
  norm_num

theorem pm_history (tol : ℝ) (htol : tol ≤ 1 / 2) :
    (witP (-4) 3).solve false tol 3 (some ![5, 0])
      = ((witP (-4) 3).fistaIter 3 pmStart,
         (witP (-4) 3).fistaStop false ((witP (-4) 3).fistaIter 2 pmStart),
         [.fin (2809 / 128), .fin (25 / 4), .fin (2 * pmA ^ 2 + pmA / 2 + 193 / 32)]) := by
  have h1 : Ext.lt (Ext.fin ((75:ℝ) / 8)) (.fin tol) = false := by
    simp only [Ext.lt, decide_eq_false_iff_not, not_lt]; linarith
  have h2 : Ext.lt (Ext.fin ((1:ℝ) / 2)) (.fin tol) = false := by
    simp only [Ext.lt, decide_eq_false_iff_not, not_lt]; linarith
  unfold FistaProb.solve
  show (witP (-4) 3).fistaRun false tol (2 + 1) pmStart .inf [] = _
  rw [FistaProb.fistaRun]
  simp only [pm_crit1, h1, Bool.false_eq_true, if_false, pm_pass1]
  rw [FistaProb.fistaRun]
  simp only [pm_crit2, h2, Bool.false_eq_true, if_false, pm_pass2]
  rw [FistaProb.fistaRun]
  simp only [FistaProb.fistaRun, ite_self]
  rw [iter_succ', pm_iter2, pm_w3 _ _ beta2_gt', pm_obj1, pm_obj2]
  have h3 := pm_obj3
  unfold pmA at h3 ⊢
  rw [h3]
  rfl

/-- **FISTA is not monotone, with a positive tolerance and the repaired criterion.**
    `FISTA(max_iter=3, tol=tol)._solve(X, y, Quadratic(), L1(4.), w_init=[5., 0.])` with
    `X = [[3, 1], [1, 3]]`, `y = (-4, 3)`, any `tol ≤ 1/2` (e.g. the default `1e-4`): the criteria of
    the first two passes are `75/8` and `1/2`, the loop runs its three passes and returns the
    objective history `[2809/128, 25/4, 2a² + a/2 + 193/32]` with `a > 1/4`, whose last entry exceeds
    `25/4` (numerically `21.9453, 6.25, 6.2974`). -/
theorem fista_not_monotone_pos_tol :
    ∃ (P : FistaProb ℝ 2 2) (w0 : Fin 2 → ℝ) (a : ℝ),
      WellPosed P ∧ GlobalLipschitz P ∧ 0 < P.L ∧ (∀ j, ProxOptimal P j (1 / P.L)) ∧
      (∀ tol ≤ 1 / 2, (P.solve false tol 3 (some w0)).2.2
          = [.fin (2809 / 128), .fin (25 / 4), .fin (2 * a ^ 2 + a / 2 + 193 / 32)]) ∧
      (25:ℝ) / 4 < 2 * a ^ 2 + a / 2 + 193 / 32 := by
  obtain ⟨h1, h2, h3, _, h5⟩ := wit_hyps (-4) 3
  refine ⟨witP (-4) 3, ![5, 0], pmA, h1, h2, h3, h5, fun tol htol => ?_, ?_⟩
  · rw [pm_history tol htol]
  · nlinarith [pmA_gt]

/-! ### (d) the reported criterion [C01 / C17] -/

/-- **the reported criterion is a certificate** (sub-differential strategy, since commit 202760b):
    if the `stop_crit` computed by a pass is at most `tol`, the new iterate satisfies first-order
    optimality within `tol` for the documented problem, the violation being expressed from
    `X, y, w` alone — the same `Spec.Certificate` as AndersonCD's (C01) and GramCD's, no intercept.
    In particular the returned stopping value is the optimality violation of the returned point. -/
theorem stop_is_certificate (P : FistaProb ℝ n p) (s : FistaState ℝ p) (c tol : ℝ)
    (hadm : ∀ j, ∃ st, Admissible P.pen (P.wts j) st)
    (hbox : ∀ a, P.pen = .box a → 0 < a ∧ ∀ j, 0 ≤ (P.fistaStep s).w j ∧ (P.fistaStep s).w j ≤ a)
    (hscad : ∀ a g, P.pen = .scad a g → 1 < g)
    (hroot : ∀ a, P.pen = .l05 a ∨ P.pen = .l23 a → 0 < a)
    (hstop : P.fistaStop false s = .fin c) (hc : c ≤ tol) :
    Certificate P.toCD (P.fistaStep s).w 0 tol := by
  rw [stop_eq] at hstop
  obtain ⟨_, hall⟩ := critOf_scores P false _ _ c hstop
  refine ⟨fun j => ?_, fun h => by cases h⟩
  obtain ⟨d, hd, hdc⟩ := hall j
  simp only [FistaProb.scores, Bool.false_eq_true, if_false] at hd
  have hdist := score_is_distance P.pen (P.wts j) ((P.fistaStep s).w j)
    (trueGrad P (P.fistaStep s).w j) (hadm j)
    (fun a hp => ⟨(hbox a hp).1, (hbox a hp).2 j⟩) hscad hroot
  rw [hd] at hdist
  obtain ⟨⟨g, hg, hgd⟩, _⟩ := hdist
  refine ⟨g, hg, ?_⟩
  have e : P.toCD.df.gradScalar P.toCD.X P.toCD.sw P.toCD.y
      (linPred P.toCD (P.fistaStep s).w 0) j = trueGrad P (P.fistaStep s).w j := by
    rw [← lin_eq_linPred]; rfl
  rw [e, hgd]
  linarith

/-- run level: whenever `_solve` (with `max_iter ≥ 1`, from any start) returns a finite
    `stop_crit ≤ tol'` — in particular when it stopped on `stop_crit < tol` — the returned `w` is
    certified within `tol'` -/
theorem run_stop_is_certificate (P : FistaProb ℝ n p) (tol tol' : ℝ) (fuel : Nat)
    (s : FistaState ℝ p) (crit : Ext ℝ) (objs : List (Ext ℝ)) (c : ℝ) (hfuel : 0 < fuel)
    (hadm : ∀ j, ∃ st, Admissible P.pen (P.wts j) st)
    (hbox : ∀ a, P.pen = .box a → 0 < a ∧
      ∀ j, 0 ≤ (P.fistaRun false tol fuel s crit objs).1.w j ∧
        (P.fistaRun false tol fuel s crit objs).1.w j ≤ a)
    (hscad : ∀ a g, P.pen = .scad a g → 1 < g)
    (hroot : ∀ a, P.pen = .l05 a ∨ P.pen = .l23 a → 0 < a)
    (hstop : (P.fistaRun false tol fuel s crit objs).2.1 = .fin c) (hc : c ≤ tol') :
    Certificate P.toCD (P.fistaRun false tol fuel s crit objs).1.w 0 tol' := by
  obtain ⟨k, _, hpos, hrun, _⟩ := run_spec P false tol fuel s crit objs
  rw [hrun] at hstop hbox ⊢
  obtain ⟨k', rfl⟩ : ∃ k', k = k' + 1 := ⟨k - 1, (Nat.succ_pred_eq_of_pos (hpos hfuel)).symm⟩
  simp only [critAfter] at hstop
  simp only [iter_succ'] at hbox ⊢
  exact stop_is_certificate P _ c tol' hadm hbox hscad hroot hstop hc

/-! #### pre-repair behaviour (before commit 202760b), stated on `fistaStopOld` -/

/-- what the pre-repair `stop_crit ≤ tol` certified (sub-differential strategy): for every feature, minus the
    partial derivative of the datafit **at the old extrapolated point `z`** is within `tol` of the
    sub-differential of the penalty **at the new iterate `w`** -/
theorem stop_certifies_mixed (P : FistaProb ℝ n p) (s : FistaState ℝ p) (c tol : ℝ)
    (hadm : ∀ j, ∃ st, Admissible P.pen (P.wts j) st)
    (hbox : ∀ a, P.pen = .box a → 0 < a ∧ ∀ j, 0 ≤ (P.fistaStep s).w j ∧ (P.fistaStep s).w j ≤ a)
    (hscad : ∀ a g, P.pen = .scad a g → 1 < g)
    (hroot : ∀ a, P.pen = .l05 a ∨ P.pen = .l23 a → 0 < a)
    (hstop : P.fistaStopOld false s = .fin c) (hc : c ≤ tol) (j : Fin p) :
    ∃ g, IsRegSubgrad (pen P.pen (P.wts j)) ((P.fistaStep s).w j) g ∧
      |(-(trueGrad P s.z j)) - g| ≤ tol := by
  rw [stopOld_eq] at hstop
  obtain ⟨_, hall⟩ := critOf_scores P false _ _ c hstop
  obtain ⟨d, hd, hdc⟩ := hall j
  simp only [FistaProb.scores, Bool.false_eq_true, if_false] at hd
  have hdist := score_is_distance P.pen (P.wts j) ((P.fistaStep s).w j) (trueGrad P s.z j) (hadm j)
    (fun a hp => ⟨(hbox a hp).1, (hbox a hp).2 j⟩) hscad hroot
  rw [hd] at hdist
  obtain ⟨⟨g, hg, hgd⟩, _⟩ := hdist
  exact ⟨g, hg, by rw [hgd]; linarith⟩

/-- hence the true first-order violation at the returned point is bounded by `tol` **plus the
    change of the gradient between `z` and `w`** — not by `tol` -/
theorem stop_true_violation_le (P : FistaProb ℝ n p) (s : FistaState ℝ p) (c tol : ℝ)
    (hadm : ∀ j, ∃ st, Admissible P.pen (P.wts j) st)
    (hbox : ∀ a, P.pen = .box a → 0 < a ∧ ∀ j, 0 ≤ (P.fistaStep s).w j ∧ (P.fistaStep s).w j ≤ a)
    (hscad : ∀ a g, P.pen = .scad a g → 1 < g)
    (hroot : ∀ a, P.pen = .l05 a ∨ P.pen = .l23 a → 0 < a)
    (hstop : P.fistaStopOld false s = .fin c) (hc : c ≤ tol) (j : Fin p) :
    ∃ g, IsRegSubgrad (pen P.pen (P.wts j)) ((P.fistaStep s).w j) g ∧
      |(-(trueGrad P (P.fistaStep s).w j)) - g|
        ≤ tol + |trueGrad P (P.fistaStep s).w j - trueGrad P s.z j| := by
  obtain ⟨g, hg, hle⟩ := stop_certifies_mixed P s c tol hadm hbox hscad hroot hstop hc j
  refine ⟨g, hg, ?_⟩
  have : -(trueGrad P (P.fistaStep s).w j) - g
      = (-(trueGrad P s.z j) - g) - (trueGrad P (P.fistaStep s).w j - trueGrad P s.z j) := by ring
  rw [this]
  have h1 := abs_sub (-(trueGrad P s.z j) - g) (trueGrad P (P.fistaStep s).w j - trueGrad P s.z j)
  linarith

/-- a point whose true score (the penalty's `subdiff_distance` entry at the true gradient **at that
    point**) exceeds `tol` in some coordinate is not certified at `tol` -/
theorem not_certificate_of_score (P : FistaProb ℝ n p) (w : Fin p → ℝ) (j : Fin p) (d tol : ℝ)
    (hdist : IsDistToSubdiff (pen P.pen (P.wts j)) (w j) (trueGrad P w j) (.fin d)) (h : tol < d) :
    ¬ Certificate P.toCD w 0 tol := by
  rintro ⟨hc, _⟩
  obtain ⟨g, hg, hle⟩ := hc j
  have h1 := hdist.2 g hg
  have e : P.toCD.df.gradScalar P.toCD.X P.toCD.sw P.toCD.y (linPred P.toCD w 0) j
      = trueGrad P w j := by
    rw [← lin_eq_linPred]; rfl
  rw [e] at hle
  linarith

/-- `_solve(X, y, Quadratic(), L1(4.), w_init=np.array([.75, 0.]))` with `y = (-.75, 3.75)` -/
noncomputable def mxStart : FistaState ℝ 2 := FistaProb.init (some ![3 / 4, 0])

theorem mx_w1 : ((witP (-3 / 4) (15 / 4)).fistaStep mxStart).w = ![0, 0] := by
  funext j
  rw [wit_step_w, wit_grad]
  fin_cases j <;> simp [mxStart, FistaProb.init, ST] <;> norm_num

theorem mx_crit : (witP (-3 / 4) (15 / 4)).fistaStopOld false mxStart = .fin 0 := by
  rw [stopOld_eq, mx_w1, wit_critOf, wit_grad]
  simp only [Matrix.cons_val_zero, Matrix.cons_val_one]
  rw [sd_l1_zero, sd_l1_zero]
  simp [mxStart, FistaProb.init, Ext.max, smax_eq]
  norm_num

theorem mx_true_crit :
    (witP (-3 / 4) (15 / 4)).critOf false ![0, 0] (trueGrad (witP (-3 / 4) (15 / 4)) ![0, 0]) = .fin (5 / 4) := by
  rw [wit_critOf, wit_grad]
  simp only [Matrix.cons_val_zero, Matrix.cons_val_one]
  rw [sd_l1_zero, sd_l1_zero]
  simp [Ext.max, smax_eq]
  norm_num


/-- **the pre-repair criterion mixed two points** (behaviour before commit 202760b, stated on
    `fistaStopOld`).
    ```
    X = np.array([[3., 1.], [1., 3.]]); y = np.array([-.75, 3.75])
    FISTA(max_iter=100, tol=1e-4)._solve(X, y, Quadratic(), L1(4.), w_init=np.array([.75, 0.]))
    # before 202760b -> w = [0., 0.], p_objs = [3.65625], stop_crit = 0.0  (checked against the library)
    ```
    The first pass computes `grad = ∇f(z_0) = (3, -3)` at `z_0 = w_init`, lands on
    `w_1 = prox((3/8, 3/8), 1/8) = (0, 0)` and the pre-repair code reported
    `stop_crit = max_j dist(-grad_j, [-4, 4]) = 0`, which is `< tol` for every `tol > 0`: `_solve`
    returned `w = (0, 0)` with `stop_crit = 0`.  The true gradient at that point is `(-3/4, -21/4)`:
    the repaired criterion `fistaStop` is `5/4` there, and the point is not a first-order point within
    any `tol < 5/4` (the minimiser is `(0, 1/4)`).  All inequalities are strict, so the pass is the
    same in floating point. -/
theorem stop_value_mixes_points (tol : ℝ) (h3 : tol < 5 / 4) :
    WellPosed (witP (-3 / 4) (15 / 4)) ∧ GlobalLipschitz (witP (-3 / 4) (15 / 4)) ∧
    ((witP (-3 / 4) (15 / 4)).fistaStep (FistaProb.init (some ![3 / 4, 0]))).w = ![0, 0] ∧
    (witP (-3 / 4) (15 / 4)).fistaStopOld false (FistaProb.init (some ![3 / 4, 0])) = .fin 0 ∧
    (witP (-3 / 4) (15 / 4)).fistaStop false (FistaProb.init (some ![3 / 4, 0])) = .fin (5 / 4) ∧
    ¬ Certificate (witP (-3 / 4) (15 / 4)).toCD ![0, 0] 0 tol := by
  obtain ⟨h1, h2, _⟩ := wit_hyps (-3 / 4) (15 / 4)
  refine ⟨h1, h2, mx_w1, mx_crit, ?_, ?_⟩
  · show (witP (-3 / 4) (15 / 4)).fistaStop false mxStart = _
    rw [stop_eq, mx_w1]
    exact mx_true_crit
  refine not_certificate_of_score (witP (-3 / 4) (15 / 4)) ![0, 0] 1 (5 / 4) tol ?_ h3
  have h := Proofs.sd_l1 4 false 1 0 (trueGrad (witP (-3 / 4) (15 / 4)) ![0, 0] 1) (by norm_num)
  have hg : trueGrad (witP (-3 / 4) (15 / 4)) ![0, 0] 1 = -(21 / 4) := by
    rw [wit_grad]; simp; norm_num
  rw [sd_l1_zero] at h
  have e : max (0:ℝ) (|trueGrad (witP (-3 / 4) (15 / 4)) ![0, 0] 1| - 4) = 5 / 4 := by
    rw [hg]; norm_num
  rw [e] at h
  exact h

/-- with the repaired criterion the same call does not stop on that pass for `tol ≤ 5/4` -/
theorem repaired_does_not_stop_there (tol : ℝ) (h : tol ≤ 5 / 4) :
    Ext.lt ((witP (-3 / 4) (15 / 4)).fistaStop false (FistaProb.init (some ![3 / 4, 0])))
      (.fin tol) = false := by
  rw [(stop_value_mixes_points 0 (by norm_num)).2.2.2.2.1]
  simp only [Ext.lt, decide_eq_false_iff_not, not_lt]
  exact h

/-- conversely the pre-repair criterion (before commit 202760b, `fistaStopOld`) did not recognise the
    exact minimiser: in the run of `fista_not_monotone` the second pass lands on `w_2 = (0, 0)`, a
    global minimiser, but the old code reported `stop_crit = 1` (gradient taken at
    `z_1 = w_1 = (1, -1)`), so for `tol ≤ 1` the loop went on and left the minimiser; the repaired
    criterion `fistaStop` is `0` there -/
theorem stop_misses_minimiser :
    (witP (-3) 3).fistaStopOld false ((witP (-3) 3).fistaIter 1 nmStart) = .fin 1 ∧
    (witP (-3) 3).fistaStop false ((witP (-3) 3).fistaIter 1 nmStart) = .fin 0 ∧
    ((witP (-3) 3).fistaIter 2 nmStart).w = ![0, 0] ∧
    ∀ v, Ext.le ((witP (-3) 3).fistaObjective ![0, 0]) ((witP (-3) 3).fistaObjective v) = true := by
  refine ⟨?_, ?_, by rw [nm_iter2], nm_zero_is_minimiser⟩
  · show (witP (-3) 3).fistaStopOld false ((witP (-3) 3).fistaStep nmStart) = _
    rw [nm_pass1]
    exact nm_critOld2
  · show (witP (-3) 3).fistaStop false ((witP (-3) 3).fistaStep nmStart) = _
    rw [nm_pass1]
    exact nm_crit2

/-! ### non-vacuity -/

/-- the Lasso with a dense design: with `L = ‖X‖₂² / n` (any `L` with `XᵀX/n ≼ L·I`, `L > 0`) every
    hypothesis of (a) and (c) is discharged for all data: every iterate is feasible and every pass
    satisfies `F(w_new) ≤ F(z)` -/
theorem lasso_pass (X : Fin n → Fin p → ℝ) (y : Fin n → ℝ) (a L : ℝ) (ha : 0 ≤ a) (hn : 0 < n)
    (hLpos : 0 < L)
    (hL : ∀ d : Fin p → ℝ, (∑ i, (∑ j, X i j * d j) ^ 2) / n ≤ L * ∑ j, d j ^ 2)
    (s : FistaState ℝ p) :
    let P : FistaProb ℝ n p :=
      { X := X, y := y, sw := fun _ => 1, df := .quadratic, pen := .l1 a false,
        wts := fun _ => 1, L := L }
    Feasible P (P.fistaStep s).w ∧
      Ext.le (P.fistaObjective (P.fistaStep s).w) (P.fistaObjective s.z) = true := by
  intro P
  have hadm : ∀ j, Admissible P.pen (P.wts j) (1 / P.L) :=
    fun j => ⟨one_div_pos.2 hLpos, zero_le_one, ha⟩
  have hP : WellPosed P :=
    ⟨fun i => zero_le_one, (by simpa [P, DF.normaliser] using hn), fun h => (by cases h),
      fun d h => (by cases h)⟩
  have hG : GlobalLipschitz P := by
    refine ⟨1, rfl, fun d => ?_⟩
    have := hL d
    simpa [P, DF.normaliser] using this
  refine ⟨step_feasible P s hadm, step_le_objective_z P s hP hG hLpos
    (fun j => proxOptimal_of_admissible P j _ (Or.inl ⟨a, false, rfl⟩) (hadm j))
    (fun a' g pos hp => by rcases hp with hp | hp <;> cases hp)⟩

/-- a concrete pass: `X = (1)`, `y = (1)`, `α = 1/2`, `L = 1`; one pass from the cold start lands on
    the Lasso solution `w = 1/2`; the criterion it reports is `0` (gradient at the new `w`), the
    pre-repair value was `1/2` (gradient at the old `z = 0`) -/
example :
    let P : FistaProb ℝ 1 1 :=
      { X := fun _ _ => 1, y := fun _ => 1, sw := fun _ => 1, df := .quadratic,
        pen := .l1 (1 / 2) false, wts := fun _ => 1, L := 1 }
    (P.fistaStep (FistaProb.init none)).w 0 = 1 / 2 ∧
      P.fistaStop false (FistaProb.init none) = .fin 0 ∧
      P.fistaStopOld false (FistaProb.init none) = .fin (1 / 2) := by
  intro P
  have hw : (P.fistaStep (FistaProb.init none)).w = fun _ => 1 / 2 := by
    funext j
    rw [step_w]
    simp [P, FistaProb.init, trueGrad, lin, DF.gradScalar, DF.rawGrad, DF.dloss1, DF.normaliser,
      DF.lin, vsum_eq, SepPen.prox1, ST]
    norm_num
  have hpos : (0:ℝ) < 1 / 2 := by norm_num
  refine ⟨by rw [hw], ?_, ?_⟩
  · rw [stop_eq, hw]
    simp only [FistaProb.critOf, FistaProb.scores, Fin.foldl_succ, Fin.foldl_zero,
      Bool.false_eq_true, if_false]
    have e : P.pen.sd1 (P.wts 0) (1 / 2) (trueGrad P (fun _ => 1 / 2) 0) = .fin 0 := by
      show (SepPen.l1 (1 / 2 : ℝ) false).sd1 1 (1 / 2) _ = _
      rw [sd_l1_pos _ _ _ hpos]
      simp [P, trueGrad, lin, DF.gradScalar, DF.rawGrad, DF.dloss1, DF.normaliser,
        DF.lin, vsum_eq]
      norm_num
    rw [e]
    simp [Ext.max, smax_eq]
  · rw [stopOld_eq, hw]
    simp only [FistaProb.critOf, FistaProb.scores, Fin.foldl_succ, Fin.foldl_zero,
      Bool.false_eq_true, if_false]
    have e : P.pen.sd1 (P.wts 0) (1 / 2) (trueGrad P (FistaProb.init none).z 0) = .fin (1 / 2) := by
      show (SepPen.l1 (1 / 2 : ℝ) false).sd1 1 (1 / 2) _ = _
      rw [sd_l1_pos _ _ _ hpos]
      simp [P, FistaProb.init, trueGrad, lin, DF.gradScalar, DF.rawGrad, DF.dloss1, DF.normaliser,
        DF.lin, vsum_eq]
      norm_num
    rw [e]
    simp [Ext.max, smax_eq]

end Skglm.Fista
