import Skglm.Model.Validation
/-
  C13 — every composition is either refused with an explanation or solved (decision-logic part).

  Over the tables regenerated from the current source: whenever the modelled validation accepts a
  composition (solver × datafit-or-None × penalty × {dense, CSC} × {subdiff, fixpoint}), every method that
  a *compiled kernel* of that solver calls on the datafit or penalty in that configuration is provided by
  the class — so an accepted composition cannot die inside numba with a typing error for a missing method.
  (`subdiff_distance` inside kernels is only reached under the sub-differential strategy, which validation
  checks separately.)  The "solved = finite values meeting the certificate" half is C01/C04/C19 on the
  accepted cells and is exercised by the exhaustive runtime matrix of the harness.
-/
namespace Skglm.C13
open Skglm.Gen

/-- the whole finite matrix, checked by kernel evaluation -/
theorem accepted_closed :
    allCells.all (fun c => !(validate c.1 c.2.1 c.2.2.1 c.2.2.2.1 c.2.2.2.2) ||
      kernelsClosed c.1 c.2.1 c.2.2.1 c.2.2.2.1) = true := by
  decide +kernel

/-- the size of the matrix that was decided -/
theorem matrix_size : allCells.length = SolverC.all.length * (DatafitC.all.length + 1) * PenaltyC.all.length * 4 := by
  decide +kernel

/-- non-vacuity: some compositions are accepted, some are refused -/
example : validate .AndersonCD (some .Quadratic) .L1 false true = true := by decide +kernel
example : validate .AndersonCD (some .Poisson) .L1 false true = false := by decide +kernel
example : validate .GramCD none .L1 false true = true := by decide +kernel

end Skglm.C13
