import Skglm.Real
import Skglm.Model.Datafits
namespace Skglm.C06
theorem placeholder : True := trivial
end Skglm.C06
