import Skglm.Proofs.Datafits
/-
  C06 — datafits are faithful: documented loss, exact derivatives, dense = sparse.
  (Single-task datafits Quadratic, WeightedQuadratic, Logistic, Huber, Poisson, Gamma,
  QuadraticSVC; Cox, group and multitask accessors are covered by the correspondence only.)
-/
namespace Skglm.C06
open Skglm Skglm.Spec
variable {n p : Nat}

/-- `value()` equals the documented loss formula -/
theorem value_eq_doc (d : DF ℝ) (sw y u : Fin n → ℝ) (w : Fin p → ℝ)
    (hsw : d ≠ .wquadratic → ∀ i, sw i = 1) (hdelta : ∀ delta, d = .huber delta → 0 ≤ delta) :
    d.value sw y u w = docValue d sw y u w := Proofs.value_eq_doc d sw y u w hsw hdelta

/-- `raw_grad` is the gradient of the loss w.r.t. the linear predictor, at every point -/
theorem rawGrad_is_deriv (d : DF ℝ) (sw y u : Fin n → ℝ) (w : Fin p → ℝ) (i : Fin n)
    (hdelta : ∀ delta, d = .huber delta → 0 < delta) :
    HasDerivAt (fun t => d.value sw y (Function.update u i t) w) (d.rawGrad sw y u i) (u i) :=
  Proofs.rawGrad_hasDerivAt d sw y u w i hdelta

/-- `gradient_scalar` is the partial derivative of `w ↦ value(Xw + b)` in `w_j`, for all data -/
theorem gradScalar_is_deriv (d : DF ℝ) (X : Fin n → Fin p → ℝ) (sw y : Fin n → ℝ) (w : Fin p → ℝ)
    (b : ℝ) (j : Fin p) (hdelta : ∀ delta, d = .huber delta → 0 < delta) :
    HasDerivAt
      (fun t => d.value sw y (fun i => (∑ k, X i k * (Function.update w j t) k) + b) (Function.update w j t))
      (d.gradScalar X sw y (fun i => (∑ k, X i k * w k) + b) j) (w j) :=
  Proofs.gradScalar_hasDerivAt d X sw y w b j hdelta

/-- `intercept_update_step` is a positive multiple (`1/L_0`) of the derivative in the intercept -/
theorem interceptStep_is_scaled_deriv (d : DF ℝ) (X : Fin n → Fin p → ℝ) (sw y : Fin n → ℝ)
    (w : Fin p → ℝ) (b : ℝ) (hdelta : ∀ delta, d = .huber delta → 0 < delta) :
    0 < d.interceptScale ∧ ∃ g, HasDerivAt (fun t => d.value sw y (fun i => (∑ k, X i k * w k) + t) w) g b ∧
      d.interceptStep sw y (fun i => (∑ k, X i k * w k) + b) = d.interceptScale * g :=
  Proofs.interceptStep_hasDerivAt d X sw y w b hdelta

/-- every CSC gradient accessor returns the same number as the dense accessor on the matrix the CSC
    structure represents (any size, explicit zeros, unsorted rows, duplicates) -/
theorem sparse_grad_eq_dense (d : DF ℝ) (M : CSC ℝ n p) (sw y u : Fin n → ℝ) (j : Fin p) :
    d.gradScalarSparse M sw y u j = d.gradScalar M.toDense sw y u j :=
  Proofs.gradScalarSparse_eq_dense d M sw y u j

/-- the in-place CSC update of the model fit equals the dense column update -/
theorem sparse_axpy_eq_dense (M : CSC ℝ n p) (j : Fin p) (c : ℝ) (u : Fin n → ℝ) (i : Fin n) :
    M.colAxpy j c u i = u i + c * M.toDense i j := Proofs.colAxpy_eq_dense M j c u i

/-- non-vacuity: Huber with `delta = 1` at a residual exactly on the kink has the derivative `-1` -/
example : (DF.huber (1:ℝ)).dloss1 2 1 = -1 := by
  simp [DF.dloss1, sabs_eq, sgn]; norm_num

end Skglm.C06
