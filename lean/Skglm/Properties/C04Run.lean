import Skglm.Proofs.Run
/-
  C04 — run level (AndersonCD): feasibility at every stopping point.  (Kernel level: `C04.lean`.)
-/

namespace Skglm.C04Run
open Skglm Skglm.Spec Skglm.Proofs
variable {n p : Nat}

/-- run level: from a feasible start every state the solver can reach — hence every stopping point,
    converged or budget-exhausted, in particular right after an accepted extrapolation — is feasible -/
theorem feasible_at_every_stopping_point (P : CDProb ℝ n p) (s₀ s : CDState ℝ n p) (h₀ : Feasible P s₀.w)
    (hadm : ∀ j, Admissible P.pen (P.wts j) (CDProb.stepsize (P.df.lipschitz P.X P.sw j)))
    (hg : ∀ a g pos, P.pen = .mcp a g pos ∨ P.pen = .wmcp a g pos → 0 < g)
    (h : Reach P s₀ s) : Feasible P s.w := reach_feasible P s₀ s h₀ hadm hg h

/-- the acceptance test rejects infeasible extrapolations because their objective is `+∞` -/
theorem infeasible_extrapolation_rejected (P : CDProb ℝ n p) (s acc : CDState ℝ n p) (hf : Feasible P s.w)
    (hg : ∀ a g pos, P.pen = .mcp a g pos ∨ P.pen = .wmcp a g pos → 0 < g) :
    Feasible P (P.acceptMove s acc).w := acceptMove_feasible P s acc hf hg

end Skglm.C04Run
