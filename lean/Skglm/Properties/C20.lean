import Skglm.Model.Validation
/-
  C20 — compiled kernels stay inside their arrays (index-shape part).

  (1) Over the call-site table regenerated from the source: in every solver that appends an intercept to
  the coefficient vector, no call of `penalty.value` receives the full vector, and no call of
  `penalty.value / subdiff_distance / generalized_support` anywhere receives `w[:-1]` (which drops a
  feature when there is no intercept: the out-of-bounds read of the original GroupProxNewton line search).
  (2) Index lemmas for the group indirection and for CSC structures: under the well-formedness conditions
  the harness generators guarantee, every index a kernel forms is inside its array.
-/
namespace Skglm.C20
open Skglm.Gen

theorem penalty_value_never_sees_intercept :
    SolverC.all.all (fun s => !s.hasIntercept ||
      s.penaltySlices.all (fun ms => !(ms.1 == 0 && ms.2 == 0))) = true := by
  decide +kernel

theorem no_minus_one_slice :
    SolverC.all.all (fun s => s.penaltySlices.all (fun ms => !(ms.2 == 2))) = true := by
  decide +kernel

/-- group indirection: with `grp_ptr` non-decreasing, ending at `grp_indices.length`, and every stored index
    below `p`, every index `grp_indices[k]` read for group `g` (`grp_ptr[g] ≤ k < grp_ptr[g+1]`) exists and
    is a valid feature index -/
theorem group_reads_in_bounds (grpPtr grpIdx : List Nat) (p g k : Nat)
    (hmono : ∀ i, i + 1 < grpPtr.length → grpPtr[i]! ≤ grpPtr[i + 1]!)
    (hlast : grpPtr.getLast? = some grpIdx.length)
    (hidx : ∀ j ∈ grpIdx, j < p)
    (hg : g + 1 < grpPtr.length) (hk1 : grpPtr[g]! ≤ k) (hk2 : k < grpPtr[g + 1]!) :
    k < grpIdx.length ∧ grpIdx[k]! < p := by
  have hle : ∀ i, i < grpPtr.length → grpPtr[i]! ≤ grpIdx.length := by
    intro i hi
    -- monotone up to the last entry
    have hne : grpPtr ≠ [] := by intro h; simp [h] at hi
    have hl : grpPtr[grpPtr.length - 1]! = grpIdx.length := by
      have := List.getLast?_eq_some_getLast hne
      rw [this] at hlast
      have h2 : grpPtr.getLast hne = grpIdx.length := by simpa using hlast
      rw [← h2, List.getLast_eq_getElem]
      simp [getElem!_pos, Nat.sub_lt (List.length_pos_iff.mpr hne)]
    have mono : ∀ d, i + d < grpPtr.length → grpPtr[i]! ≤ grpPtr[i + d]! := by
      intro d
      induction d with
      | zero => intro _; exact Nat.le_refl _
      | succ d ih =>
        intro hd
        exact Nat.le_trans (ih (by omega)) (by simpa [Nat.add_assoc] using hmono (i + d) (by omega))
    have := mono (grpPtr.length - 1 - i) (by omega)
    rw [show i + (grpPtr.length - 1 - i) = grpPtr.length - 1 by omega, hl] at this
    exact this
  have hk : k < grpIdx.length := Nat.lt_of_lt_of_le hk2 (hle (g + 1) hg)
  refine ⟨hk, ?_⟩
  have : grpIdx[k]! = grpIdx[k] := by simp [getElem!_pos, hk]
  rw [this]
  exact hidx _ (List.getElem_mem hk)

/-- CSC column reads: with `indptr` non-decreasing and ending at `indices.length`, every position read for
    column `j` exists, and the row it names is below `n` when all stored rows are -/
theorem csc_reads_in_bounds (indptr indices : List Nat) (n j k : Nat)
    (hmono : ∀ i, i + 1 < indptr.length → indptr[i]! ≤ indptr[i + 1]!)
    (hlast : indptr.getLast? = some indices.length)
    (hrows : ∀ r ∈ indices, r < n)
    (hj : j + 1 < indptr.length) (hk1 : indptr[j]! ≤ k) (hk2 : k < indptr[j + 1]!) :
    k < indices.length ∧ indices[k]! < n :=
  group_reads_in_bounds indptr indices n j k hmono hlast hrows hj hk1 hk2

example : ([0, 2, 3] : List Nat).getLast? = some ([1, 0, 2] : List Nat).length := by decide

end Skglm.C20
