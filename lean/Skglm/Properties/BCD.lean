import Skglm.Proofs.BCD
/-
  GroupBCD (block coordinate descent, `skglm/solvers/group_bcd.py`) — the solver-level invariants
  of the coordinate-descent solver carry over to the block moves of `Skglm/Model/BCD.lean`:

  * buffer consistency (I1): `Xw = X w + b` after block steps over any group indices, intercept
    updates and accepted extrapolations — for *any* extrapolation coefficients (whole vectors,
    intercept included, are combined, so not even `Σ c = 1` is needed);
  * block descent: a block step with the constant `lips[g]` does not increase the objective as soon
    as `lips[g]` bounds the block curvature, which for QuadraticGroup / LogisticGroup is exactly the
    operator-norm contract of `numpy.linalg.norm(X_g, ord=2) ** 2 / n` (`/ (4 n)`);
  * feasibility (positive group lasso): coefficients stay non-negative, infeasible extrapolated
    points are rejected;
  * all three in every reachable state (`GReach`).

  Hypotheses on the groups: indices of a group are distinct (`Nodup`); for descent the groups are
  pairwise disjoint.  They need not be contiguous, sorted, or cover all features.
-/
namespace Skglm.BCD
open Skglm Skglm.Spec Skglm.Proofs Skglm.Proofs.BCD
variable {n p : Nat}

/-! ### a. buffer consistency -/

theorem step_consistent (P : GrpProb ℝ n p) (s : CDState ℝ n p) (g : Nat)
    (hnd : ∀ grp ∈ P.groups, grp.Nodup) (h : GConsistent P s) : GConsistent P (P.bcdStep s g) :=
  bcdStep_consistent P s g hnd h

theorem epoch_consistent (P : GrpProb ℝ n p) (s : CDState ℝ n p) (ws : List Nat)
    (hnd : ∀ grp ∈ P.groups, grp.Nodup) (h : GConsistent P s) : GConsistent P (P.bcdEpoch s ws) :=
  bcdEpoch_consistent P s ws hnd h

theorem intercept_consistent (P : GrpProb ℝ n p) (s : CDState ℝ n p) (h : GConsistent P s) :
    GConsistent P (P.interceptMove s) :=
  interceptMove_consistent P s h

/-- any linear combination of consistent states is consistent (no condition on `c`) -/
theorem extrapolation_consistent {K : Nat} (P : GrpProb ℝ n p) (buf : Fin K → CDState ℝ n p)
    (c : Fin K → ℝ) (hbuf : ∀ k, GConsistent P (buf k)) :
    GConsistent P (GrpProb.extrapPoint buf c) :=
  extrapPoint_consistent P buf c hbuf

theorem accept_consistent (P : GrpProb ℝ n p) (s acc : CDState ℝ n p) (hs : GConsistent P s)
    (ha : GConsistent P acc) : GConsistent P (P.acceptMove s acc) :=
  acceptMove_consistent P s acc hs ha

/-- without distinct indices inside a group the buffer is *not* maintained: a feature listed twice
    has its column added twice -/
theorem step_consistent_needs_nodup :
    ∃ (P : GrpProb ℝ 1 1) (s : CDState ℝ 1 1), GConsistent P s ∧ ¬ GConsistent P (P.bcdStep s 0) := by
  refine ⟨{ X := fun _ _ => 1, y := fun _ => 1, sw := fun _ => 1, df := .quadratic,
            pen := .wgl2 0 false, groups := [[0, 0]], wgs := [1], wfs := fun _ => 1,
            lips := [1], fitInt := false },
          { w := fun _ => 0, b := 0, Xw := fun _ => 0 }, ?_, ?_⟩
  · intro i; simp
  · intro h
    have h0 := h 0
    rw [bcdStep_eq _ _ 0 [0, 0] 1 1 rfl rfl rfl one_ne_zero] at h0
    simp [GrpProb.assign, blockNew, BlkPen.proxBlk, BST, BST0, Fin.foldl_succ,
      Fin.foldl_zero, Fin.sum_univ_succ, DF.gradScalar, DF.rawGrad, DF.dloss1, DF.normaliser,
      DF.lin, vsum_eq, norm2_eq] at h0
    have h2 : ¬ (Real.sqrt 2 ≤ 0) := not_le.2 (Real.sqrt_pos.2 (by norm_num))
    rw [if_neg h2] at h0
    norm_num at h0

/-! ### b. locality -/

theorem step_outside (P : GrpProb ℝ n p) (s : CDState ℝ n p) (g : Nat) (j : Fin p)
    (hj : ∀ grp, P.groups[g]? = some grp → j ∉ grp) :
    (P.bcdStep s g).w j = s.w j ∧ (P.bcdStep s g).b = s.b :=
  bcdStep_outside P s g j hj

/-! ### c. block descent -/

theorem step_descent (P : GrpProb ℝ n p) (s : CDState ℝ n p) (g : Nat)
    (hnd : ∀ grp ∈ P.groups, grp.Nodup) (hdisj : P.groups.Pairwise List.Disjoint)
    (hpen : PenOK P) (hlips : ∀ L ∈ P.lips, 0 ≤ L) (hcurv : BlockSmooth P g) :
    Ext.le (P.objective (P.bcdStep s g)) (P.objective s) = true :=
  bcdStep_descent P s g hnd hdisj hpen hlips hcurv

/-- QuadraticGroup: the only assumption left on `lips` is the contract of
    `numpy.linalg.norm(X_g, ord=2) ** 2 / n`: `‖X_g d‖² / n ≤ L_g ‖d‖²` -/
theorem curvature_quadratic (P : GrpProb ℝ n p) (g : Nat) (hdf : P.df = .quadratic)
    (hsw : ∀ i, P.sw i = 1) (hn : 0 < n)
    (hop : ∀ grp L, P.groups[g]? = some grp → P.lips[g]? = some L → ∀ d : Fin grp.length → ℝ,
      (∑ r, (∑ i, P.X r (grp.get i) * d i) ^ 2) / (n : ℝ) ≤ L * ∑ i, d i ^ 2) :
    BlockSmooth P g :=
  blockSmooth_quadratic P g hdf hsw hn hop

/-- LogisticGroup: `‖X_g d‖² / (4 n) ≤ L_g ‖d‖²` (labels ±1) -/
theorem curvature_logistic (P : GrpProb ℝ n p) (g : Nat) (hdf : P.df = .logistic)
    (hsw : ∀ i, P.sw i = 1) (hn : 0 < n) (hy : ∀ i, P.y i = 1 ∨ P.y i = -1)
    (hop : ∀ grp L, P.groups[g]? = some grp → P.lips[g]? = some L → ∀ d : Fin grp.length → ℝ,
      (∑ r, (∑ i, P.X r (grp.get i) * d i) ^ 2) / (4 * (n : ℝ)) ≤ L * ∑ i, d i ^ 2) :
    BlockSmooth P g :=
  blockSmooth_logistic P g hdf hsw hn hy hop

theorem intercept_descent (P : GrpProb ℝ n p) (s : CDState ℝ n p) (hP : GWellPosed P)
    (hsw1 : P.df ≠ .wquadratic → ∀ i, P.sw i = 1) :
    Ext.le (P.objective (P.interceptMove s)) (P.objective s) = true :=
  interceptMove_descent P s hP hsw1

theorem accept_descent (P : GrpProb ℝ n p) (s acc : CDState ℝ n p) :
    Ext.le (P.objective (P.acceptMove s acc)) (P.objective s) = true :=
  acceptMove_descent P s acc

/-! ### d. feasibility (positive group lasso) -/

theorem feasible_iff_nonneg (P : GrpProb ℝ n p) (w : Fin p → ℝ) :
    GFeasible P w ↔ ∀ a, P.pen = .wgl2 a true → ∀ grp ∈ P.groups, ∀ j ∈ grp, 0 ≤ w j :=
  gfeasible_iff P w

theorem step_feasible (P : GrpProb ℝ n p) (s : CDState ℝ n p) (g : Nat) (hf : GFeasible P s.w) :
    GFeasible P (P.bcdStep s g).w :=
  bcdStep_feasible P s g hf

theorem infeasible_value_inf (P : GrpProb ℝ n p) (s : CDState ℝ n p) (h : ¬ GFeasible P s.w) :
    P.objective s = .inf :=
  objective_inf_of_infeasible P s h

theorem accept_feasible (P : GrpProb ℝ n p) (s acc : CDState ℝ n p) (hf : GFeasible P s.w) :
    GFeasible P (P.acceptMove s acc).w :=
  acceptMove_feasible P s acc hf

/-! ### e. in every reachable state -/

theorem reach_consistent (P : GrpProb ℝ n p) (s₀ s : CDState ℝ n p)
    (hnd : ∀ grp ∈ P.groups, grp.Nodup) (h₀ : GConsistent P s₀) (h : GReach P s₀ s) :
    GConsistent P s :=
  greach_consistent P s₀ s hnd h₀ h

theorem reach_feasible (P : GrpProb ℝ n p) (s₀ s : CDState ℝ n p) (h₀ : GFeasible P s₀.w)
    (h : GReach P s₀ s) : GFeasible P s.w :=
  greach_feasible P s₀ s h₀ h

theorem reach_descent (P : GrpProb ℝ n p) (s₀ s : CDState ℝ n p)
    (hnd : ∀ grp ∈ P.groups, grp.Nodup) (hdisj : P.groups.Pairwise List.Disjoint)
    (hpen : PenOK P) (hlips : ∀ L ∈ P.lips, 0 ≤ L) (hcurv : ∀ g, BlockSmooth P g)
    (hP : GWellPosed P) (hsw1 : P.df ≠ .wquadratic → ∀ i, P.sw i = 1)
    (h : GReach P s₀ s) : Ext.le (P.objective s) (P.objective s₀) = true :=
  greach_descent P s₀ s hnd hdisj hpen hlips hcurv hP hsw1 h

/-- an epoch over any list of group indices stays reachable -/
theorem reach_epoch (P : GrpProb ℝ n p) (s₀ s : CDState ℝ n p) (ws : List Nat) (h : GReach P s₀ s) :
    GReach P s₀ (P.bcdEpoch s ws) :=
  greach_epoch P s₀ s ws h

/-- non-vacuity: the cold start is consistent and feasible -/
example (P : GrpProb ℝ n p) : GConsistent P { w := fun _ => 0, b := 0, Xw := fun _ => 0 } := by
  intro i; simp

end Skglm.BCD
