import Skglm.Proofs.MultiTask
/-
  MultiTaskBCD (`skglm/solvers/multitask_bcd.py`) on QuadraticMultiTask with the row penalties
  `L2_1`, `L2_05`, `BlockMCPenalty`, `BlockSCAD` — the solver-level invariants of the moves of
  `Skglm/Model/MultiTask.lean`, for all inputs, over the reals:

  * buffer consistency (C01 / C05): `XW = X W + 1 bᵀ` after block steps over any features, intercept
    updates, accepted or rejected extrapolations, hence in every reachable state.  The extrapolated
    point of this solver is consistent *by construction* (`Xw_acc` is recomputed from the
    working-set columns and `W_acc` is zero outside the working set): no condition on the Anderson
    coefficients (in particular none on their sum) nor on the buffered iterates is needed, only that
    the working-set indices are distinct — and that one is needed (`..._needs_nodup`).
  * descent (C03): with `lips j = ‖X_j‖² / n` (what `get_lipschitz` computes) a block step does not
    increase the objective for `L2_1` (`alpha ≥ 0`) and for `BlockMCPenalty` inside its well-posed
    range (`alpha ≥ 0`, `gamma > 1 / L_j`); neither do the intercept update and the guarded
    acceptance, for every penalty.  The proxes of `BlockSCAD` and `L2_05` are not proved to be global
    minimisers in `Skglm/Proofs/BlockProx.lean`, so the step / reachable-state descent theorems are
    stated for `L2_1` and `BlockMCPenalty` only (`RowPenOK`).
  * the zero-column skip (C19): a zero column has constant `0`, the step is skipped, its gradient
    row is zero.
  * locality: a step on feature `j` leaves every other row (and the intercept) untouched.
-/
namespace Skglm.MT
open Skglm Skglm.Spec Skglm.Proofs Skglm.Proofs.MT
variable {n p T : Nat}

/-! ### a. buffer consistency -/

theorem step_consistent (P : MTProb ℝ n p T) (s : MTState ℝ n p T) (j : Fin p)
    (h : MTConsistent P s) : MTConsistent P (P.mtStep s j) :=
  mtStep_consistent P s j h

theorem epoch_consistent (P : MTProb ℝ n p T) (s : MTState ℝ n p T) (ws : List (Fin p))
    (h : MTConsistent P s) : MTConsistent P (P.mtEpoch s ws) :=
  mtEpoch_consistent P s ws h

theorem intercept_consistent (P : MTProb ℝ n p T) (s : MTState ℝ n p T) (h : MTConsistent P s) :
    MTConsistent P (P.interceptMove s) :=
  interceptMove_consistent P s h

/-- the extrapolated point `(W_acc, Xw_acc)` is consistent for *any* coefficients and *any*
    buffered iterates (consistent or not): `Xw_acc = X[:, ws] @ W_acc[ws] + fit_intercept * W_acc[-1]`
    is recomputed and `W_acc` is zero outside `ws` -/
theorem extrapolation_consistent {K : Nat} (P : MTProb ℝ n p T) (ws : List (Fin p))
    (buf : Fin K → MTState ℝ n p T) (c : Fin K → ℝ) (hnd : ws.Nodup) :
    MTConsistent P (P.extrapPoint ws buf c) :=
  extrapPoint_consistent P ws buf c hnd

/-- the instance asked for: affine coefficients (`Σ c = 1`) on consistent iterates -/
theorem extrapolation_consistent_affine {K : Nat} (P : MTProb ℝ n p T) (ws : List (Fin p))
    (buf : Fin K → MTState ℝ n p T) (c : Fin K → ℝ) (hnd : ws.Nodup) (_hc : ∑ t, c t = 1)
    (_hbuf : ∀ t, MTConsistent P (buf t)) : MTConsistent P (P.extrapPoint ws buf c) :=
  extrapPoint_consistent P ws buf c hnd

/-- rows outside the working set of the extrapolated point are zero, not the current rows -/
theorem extrapolation_outside {K : Nat} (P : MTProb ℝ n p T) (ws : List (Fin p))
    (buf : Fin K → MTState ℝ n p T) (c : Fin K → ℝ) (j : Fin p) (hj : j ∉ ws) (k : Fin T) :
    (P.extrapPoint ws buf c).W j k = 0 :=
  extrapPoint_outside P ws buf c j hj k

/-- when the buffered iterates are consistent and supported on the working set (what the solver's
    choice of `ws` guarantees), the recomputed `Xw_acc` is the combination of the buffered model
    fits — whole matrices, any coefficients -/
theorem extrapolation_XW_eq_combination {K : Nat} (P : MTProb ℝ n p T) (ws : List (Fin p))
    (buf : Fin K → MTState ℝ n p T) (c : Fin K → ℝ) (hnd : ws.Nodup)
    (hbuf : ∀ t, MTConsistent P (buf t)) (hsupp : ∀ t j, j ∉ ws → ∀ k, (buf t).W j k = 0)
    (hb : P.fitInt = false → ∀ t k, (buf t).b k = 0) (i : Fin n) (k : Fin T) :
    (P.extrapPoint ws buf c).XW i k = ∑ t, c t * (buf t).XW i k :=
  extrapPoint_XW_eq P ws buf c hnd hbuf hsupp hb i k

theorem accept_consistent (P : MTProb ℝ n p T) (s acc : MTState ℝ n p T) (hs : MTConsistent P s)
    (ha : MTConsistent P acc) : MTConsistent P (P.acceptMove s acc) :=
  acceptMove_consistent P s acc hs ha

/-- with a repeated working-set index `X[:, ws] @ W_acc[ws]` counts a column twice: the
    extrapolated point is not consistent -/
theorem extrapolation_consistent_needs_nodup :
    ∃ (P : MTProb ℝ 1 1 1) (ws : List (Fin 1)) (buf : Fin 1 → MTState ℝ 1 1 1) (c : Fin 1 → ℝ),
      (∀ t, MTConsistent P (buf t)) ∧ ∑ t, c t = 1 ∧ ¬ MTConsistent P (P.extrapPoint ws buf c) := by
  refine ⟨{ X := fun _ _ => 1, Y := fun _ _ => 0, pen := .l21 0, lips := fun _ => 1, fitInt := false },
    [0, 0], fun _ => { W := fun _ _ => 1, b := fun _ => 0, XW := fun _ _ => 1 }, fun _ => 1,
    ?_, ?_, ?_⟩
  · intro t i k; simp
  · simp
  · intro h
    have h0 := h 0 0
    simp [MTProb.extrapPoint, vsum_eq] at h0

/-! ### b. locality -/

theorem step_outside (P : MTProb ℝ n p T) (s : MTState ℝ n p T) (j j' : Fin p) (hj : j' ≠ j) :
    (P.mtStep s j).W j' = s.W j' ∧ (P.mtStep s j).b = s.b :=
  mtStep_outside P s j j' hj

theorem epoch_outside (P : MTProb ℝ n p T) (s : MTState ℝ n p T) (ws : List (Fin p)) (j' : Fin p)
    (hj : j' ∉ ws) : (P.mtEpoch s ws).W j' = s.W j' ∧ (P.mtEpoch s ws).b = s.b :=
  mtEpoch_outside P s ws j' hj

/-! ### c. the zero-column skip -/

/-- `get_lipschitz` over the reals -/
theorem lipschitz_eq_sq_norm (X : Fin n → Fin p → ℝ) (j : Fin p) :
    mtLipschitz X j = (∑ i, X i j ^ 2) / (n : ℝ) :=
  lipschitz_eq X j

theorem step_zero_column (P : MTProb ℝ n p T) (s : MTState ℝ n p T) (j : Fin p)
    (hcol : ∀ i, P.X i j = 0) (hlip : P.lips j = mtLipschitz P.X j) :
    P.mtStep s j = s ∧ ∀ (XW : Fin n → Fin T → ℝ) (k : Fin T), P.gradientJ XW j k = 0 :=
  ⟨mtStep_eq_self P s j (hlip.trans (lipschitz_zero_col P.X j hcol)),
   fun XW k => gradientJ_zero_col P XW j hcol k⟩

/-! ### d. descent -/

theorem step_descent (P : MTProb ℝ n p T) (s : MTState ℝ n p T) (j : Fin p)
    (hlip : P.lips j = mtLipschitz P.X j) (hpen : P.lips j ≠ 0 → RowPenOK P.pen (1 / P.lips j)) :
    Ext.le (P.objective (P.mtStep s j)) (P.objective s) = true :=
  mtStep_descent P s j hlip hpen

/-- `L2_1`, `alpha ≥ 0` -/
theorem step_descent_l21 (P : MTProb ℝ n p T) (s : MTState ℝ n p T) (j : Fin p) (a : ℝ)
    (hlip : P.lips j = mtLipschitz P.X j) (hp : P.pen = .l21 a) (ha : 0 ≤ a) :
    Ext.le (P.objective (P.mtStep s j)) (P.objective s) = true :=
  mtStep_descent P s j hlip (fun _ => Or.inl ⟨a, hp, ha⟩)

/-- `BlockMCPenalty`, `alpha ≥ 0`, `gamma > 1 / L_j` -/
theorem step_descent_bmcp (P : MTProb ℝ n p T) (s : MTState ℝ n p T) (j : Fin p) (a g : ℝ)
    (hlip : P.lips j = mtLipschitz P.X j) (hp : P.pen = .bmcp a g) (ha : 0 ≤ a) (hg : 0 < g)
    (hgl : 1 / P.lips j < g) :
    Ext.le (P.objective (P.mtStep s j)) (P.objective s) = true :=
  mtStep_descent P s j hlip (fun _ => Or.inr ⟨a, g, hp, ha, hg, hgl⟩)

theorem epoch_descent (P : MTProb ℝ n p T) (s : MTState ℝ n p T) (ws : List (Fin p))
    (hlip : ∀ j, P.lips j = mtLipschitz P.X j)
    (hpen : ∀ j, P.lips j ≠ 0 → RowPenOK P.pen (1 / P.lips j)) :
    Ext.le (P.objective (P.mtEpoch s ws)) (P.objective s) = true :=
  mtreach_descent P s _ hlip hpen (mtreach_epoch P s s ws MTReach.start)

/-- every penalty, every data: the intercept update is an exact minimisation over the intercept -/
theorem intercept_descent (P : MTProb ℝ n p T) (s : MTState ℝ n p T) :
    Ext.le (P.objective (P.interceptMove s)) (P.objective s) = true :=
  interceptMove_descent P s

theorem accept_descent (P : MTProb ℝ n p T) (s acc : MTState ℝ n p T) :
    Ext.le (P.objective (P.acceptMove s acc)) (P.objective s) = true :=
  acceptMove_descent P s acc

/-! ### e. in every reachable state -/

theorem reach_consistent (P : MTProb ℝ n p T) (s₀ s : MTState ℝ n p T) (h₀ : MTConsistent P s₀)
    (h : MTReach P s₀ s) : MTConsistent P s :=
  mtreach_consistent P s₀ s h₀ h

theorem reach_descent (P : MTProb ℝ n p T) (s₀ s : MTState ℝ n p T)
    (hlip : ∀ j, P.lips j = mtLipschitz P.X j)
    (hpen : ∀ j, P.lips j ≠ 0 → RowPenOK P.pen (1 / P.lips j))
    (h : MTReach P s₀ s) : Ext.le (P.objective s) (P.objective s₀) = true :=
  mtreach_descent P s₀ s hlip hpen h

/-- an epoch over any working set stays reachable -/
theorem reach_epoch (P : MTProb ℝ n p T) (s₀ s : MTState ℝ n p T) (ws : List (Fin p))
    (h : MTReach P s₀ s) : MTReach P s₀ (P.mtEpoch s ws) :=
  mtreach_epoch P s₀ s ws h

/-- without `fit_intercept` the intercept row stays zero -/
theorem reach_no_intercept (P : MTProb ℝ n p T) (s₀ s : MTState ℝ n p T) (hfit : P.fitInt = false)
    (h₀ : ∀ k, s₀.b k = 0) (h : MTReach P s₀ s) : ∀ k, s.b k = 0 :=
  mtreach_no_intercept P s₀ s hfit h₀ h

/-! ### non-vacuity -/

/-- the cold start (`W = 0`, `XW = 0`) is consistent for every problem -/
example (P : MTProb ℝ n p T) :
    MTConsistent P { W := fun _ _ => 0, b := fun _ => 0, XW := fun _ _ => 0 } := by
  intro i k; simp

/-- a concrete problem (2 samples, 1 feature, 2 tasks) with the constants the code computes
    satisfies the hypotheses of the descent theorems, for `L2_1` and for `BlockMCPenalty`; its
    constant is non-zero, so the step is not the skipped one -/
example :
    let P₁ : MTProb ℝ 2 1 2 := MTProb.ofData (fun _ _ => 1) (fun _ _ => 1) (.l21 (1 / 2)) true
    let P₂ : MTProb ℝ 2 1 2 := MTProb.ofData (fun _ _ => 1) (fun _ _ => 1) (.bmcp (1 / 2) 3) true
    (∀ j, P₁.lips j = mtLipschitz P₁.X j) ∧ (∀ j, P₁.lips j ≠ 0 → RowPenOK P₁.pen (1 / P₁.lips j)) ∧
    (∀ j, P₂.lips j = mtLipschitz P₂.X j) ∧ (∀ j, P₂.lips j ≠ 0 → RowPenOK P₂.pen (1 / P₂.lips j)) ∧
    (∀ j, P₂.lips j = 1) := by
  have hl : ∀ j : Fin 1, mtLipschitz (fun (_ : Fin 2) (_ : Fin 1) => (1 : ℝ)) j = 1 := by
    intro j; rw [lipschitz_eq]; norm_num
  refine ⟨fun j => ?_, fun j _ => Or.inl ⟨1 / 2, rfl, by norm_num⟩, fun j => ?_, fun j _ => ?_,
    fun j => ?_⟩
  · simp [MTProb.ofData]
  · simp [MTProb.ofData]
  · refine Or.inr ⟨1 / 2, 3, rfl, by norm_num, by norm_num, ?_⟩
    simp only [MTProb.ofData, matG_eq, hl]
    norm_num
  · simp only [MTProb.ofData, matG_eq, hl]

end Skglm.MT
