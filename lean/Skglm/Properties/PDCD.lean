import Skglm.Proofs.PDCD
/-
  PDCD_WS (`skglm/experimental/pdcd_ws.py`) with the datafits `SqrtQuadratic`
  (`skglm/experimental/sqrt_lasso.py`) and `Pinball` (`skglm/experimental/quantile_regression.py`) —
  properties of the moves of `Skglm/Model/PDCD.lean`, over ℝ, for all inputs.

  * (a) buffer consistency [C01/C05]: `Xw = X w` is preserved by every coordinate pass, every epoch,
    every subproblem, every run (any working sets — `np.argpartition` is a parameter).  More
    generally the *error* `Xw - X w` is invariant: a start with `w_init` given and `Xw_init`
    omitted (the code then takes `Xw = 0`, independently of `w_init`) is inconsistent for ever.
  * (b) null columns [C19]: the repaired step `1 / where(norm == 0, 1, norm)` is `1` there, the
    pseudo-gradient is `0`, the update is `w_j ← prox(w_j, 1)` and `Xw` does not move.  The
    coordinate stays where it is **iff** it is a fixed point of that prox (cold start: yes);
    a warm-started `w_j ≠ 0` is shrunk (witness) — which never increases the objective.
    Pre-repair formula: the divisor is `0` (ℝ), `inf * 0 = nan` (binary64, `#guard`s).
  * (c) feasibility [C04]: the prox maps into the feasible set; runs stay feasible.
  * (d) fixed points [C01]: a state with `z_bar = z` is left unchanged by every coordinate step
    ⇔ `stop_crit = 0`, and then `(w, z)` is a saddle point (`-Xᵀz ∈ ∂g(w)` coordinate-wise,
    `z ∈ ∂f(Xw)`), hence `w` a global minimiser.  Pass level: a pass over all features that
    returns to its start.  The literal statement "a pass leaves `(w, z)` unchanged ⇒ saddle"
    is **false** when `z_bar ≠ z` (witness).  `stop_crit ≤ tol` is a fixed-point residual: it
    certifies optimality conditions *at nearby points* with errors `tol/τ_j`, `tol/σ`; it is
    weaker than AndersonCD's sub-differential distance (witness).
  * (e) observations: with one feature there is no extrapolation and the solver cycles for ever
    on a `1 × 1` square-root Lasso (theorem, observed on the library); `max_iter = 0` reports
    `stop_crit = 0`; `Pinball.subdiff_distance` (never called) is not the distance to the
    sub-differential.
-/
namespace Skglm.PDCD
open Skglm Skglm.Spec Skglm.Proofs
variable {n p : Nat}

/-! ### (a) buffer consistency [C01 / C05] -/

theorem step_consistent (P : PDProb ℝ n p) (s : PDState ℝ n p) (j : Fin p)
    (h : Consistent P s) : Consistent P (P.pdcdStep s j) := pdcdStep_consistent P s j h

theorem epoch_consistent (P : PDProb ℝ n p) (s : PDState ℝ n p) (ws : List (Fin p))
    (h : Consistent P s) : Consistent P (P.epoch s ws) := epoch_consistent' P s ws h

theorem reach_consistent (P : PDProb ℝ n p) (s₀ s : PDState ℝ n p) (h₀ : Consistent P s₀)
    (h : PDReach P s₀ s) : Consistent P s := by
  induction h with
  | start => exact h₀
  | step j _ ih => exact step_consistent P _ j ih

/-- an epoch over any working set, in any order, stays inside `PDReach` -/
theorem reach_epoch (P : PDProb ℝ n p) (s₀ s : PDState ℝ n p) (ws : List (Fin p))
    (h : PDReach P s₀ s) : PDReach P s₀ (P.epoch s ws) := reach_epoch' P s₀ s ws h

/-- `_solve_subproblem`, any working set, any `max_epochs`, any inner tolerance -/
theorem reach_subproblem (P : PDProb ℝ n p) (s₀ s : PDState ℝ n p) (ws : List (Fin p))
    (maxEpochs : Nat) (tolIn : ℝ) (h : PDReach P s₀ s) :
    PDReach P s₀ (P.solveSubproblem ws maxEpochs tolIn s) :=
  reach_subLoop P s₀ ws tolIn maxEpochs 0 s h

/-- the state returned by `_solve`, for every `max_iter`, `max_epochs`, `p0`, `tol`, every
    start and **every** working-set selection `sel` -/
theorem reach_solve (P : PDProb ℝ n p) (sel : (Fin p → ℝ) → Nat → List (Fin p))
    (p0 maxEpochs maxIter : Nat) (tol : ℝ) (w0 : Option (Fin p → ℝ))
    (Xw0 dual0 : Option (Fin n → ℝ)) :
    PDReach P (PDProb.init w0 Xw0 dual0)
      (P.solve sel p0 maxEpochs maxIter tol w0 Xw0 dual0).1 :=
  reach_solveLoop P sel p0 maxEpochs tol _ maxIter _ 0 [] .start

theorem cold_start_consistent (P : PDProb ℝ n p) (dual0 : Option (Fin n → ℝ)) :
    Consistent P (PDProb.init none none dual0) := init_cold_consistent P dual0

/-- `w_init` and `Xw_init` both given: consistent iff the caller's `Xw_init` is `X @ w_init`
    (the solver never checks it) -/
theorem warm_start_consistent_iff (P : PDProb ℝ n p) (w0 : Fin p → ℝ) (Xw0 : Fin n → ℝ)
    (dual0 : Option (Fin n → ℝ)) :
    Consistent P (PDProb.init (some w0) (some Xw0) dual0) ↔ ∀ i, Xw0 i = ∑ j, P.X i j * w0 j :=
  init_warm_consistent_iff P w0 Xw0 dual0

/-- run level, cold start: the returned state has an exact buffer -/
theorem solve_consistent (P : PDProb ℝ n p) (sel : (Fin p → ℝ) → Nat → List (Fin p))
    (p0 maxEpochs maxIter : Nat) (tol : ℝ) (dual0 : Option (Fin n → ℝ)) :
    Consistent P (P.solve sel p0 maxEpochs maxIter tol none none dual0).1 :=
  reach_consistent P _ _ (cold_start_consistent P dual0)
    (reach_solve P sel p0 maxEpochs maxIter tol none none dual0)

/-- the buffer *error* `Xw - X w` is invariant under every coordinate pass … -/
theorem step_error_invariant (P : PDProb ℝ n p) (s : PDState ℝ n p) (j : Fin p) (i : Fin n) :
    (P.pdcdStep s j).Xw i - ∑ k, P.X i k * (P.pdcdStep s j).w k
      = s.Xw i - ∑ k, P.X i k * s.w k := by
  simp only [step_w, step_Xw, XwNext]
  rw [CDA.sum_update_one]
  ring

/-- … hence along every run -/
theorem reach_error_invariant (P : PDProb ℝ n p) (s₀ s : PDState ℝ n p) (h : PDReach P s₀ s)
    (i : Fin n) :
    s.Xw i - ∑ k, P.X i k * s.w k = s₀.Xw i - ∑ k, P.X i k * s₀.w k := by
  induction h with
  | start => rfl
  | step j _ ih => rw [step_error_invariant, ih]

/-- **`w_init` without `Xw_init`**: `_solve` takes `Xw = np.zeros(n_samples)` whatever `w_init`
    is, so in every state of the run `Xw = X (w - w_init)`: the buffer (on which the datafit, the
    dual update and the reported objective are evaluated) is off by the constant `X w_init` -/
theorem warm_start_without_Xw (P : PDProb ℝ n p) (w0 : Fin p → ℝ) (dual0 : Option (Fin n → ℝ))
    (s : PDState ℝ n p) (h : PDReach P (PDProb.init (some w0) none dual0) s) (i : Fin n) :
    s.Xw i = (∑ k, P.X i k * s.w k) - ∑ k, P.X i k * w0 k := by
  have := reach_error_invariant P _ s h i
  simp only [PDProb.init, Option.getD_some, Option.getD_none, zero_sub] at this
  linarith

/-- … so it is consistent in some (equivalently every) state of the run iff `X w_init = 0` -/
theorem warm_start_without_Xw_consistent_iff (P : PDProb ℝ n p) (w0 : Fin p → ℝ)
    (dual0 : Option (Fin n → ℝ)) (s : PDState ℝ n p)
    (h : PDReach P (PDProb.init (some w0) none dual0) s) :
    Consistent P s ↔ ∀ i, ∑ k, P.X i k * w0 k = 0 := by
  refine forall_congr' (fun i => ?_)
  rw [warm_start_without_Xw P w0 dual0 s h i]
  constructor <;> intro h' <;> linarith

/-! ### (b) null columns [C19] -/

/-- the repaired primal steps are positive and finite for **every** column … -/
theorem primal_step_pos (X : Fin n → Fin p → ℝ) (y : Fin n → ℝ) (df : PDDatafit ℝ) (pn : SepPen ℝ)
    (wts : Fin p → ℝ) (sn : ℝ) (j : Fin p) : 0 < (PDProb.ofData X y df pn wts sn).tau j :=
  ofData_tau_pos X y df pn wts sn j

/-- … `1 / ‖X_j‖` on a non-null column, `1` on a null one (the guard of commit d14cecb) -/
theorem primal_step_eq (X : Fin n → Fin p → ℝ) (y : Fin n → ℝ) (df : PDDatafit ℝ) (pn : SepPen ℝ)
    (wts : Fin p → ℝ) (sn : ℝ) (j : Fin p) :
    (PDProb.ofData X y df pn wts sn).tau j
      = if ∀ i, X i j = 0 then 1 else 1 / Real.sqrt (∑ i, X i j * X i j) := by
  rw [ofData_tau]
  by_cases h : ∀ i, X i j = 0
  · rw [if_pos h, if_pos ((normCol_eq_zero_iff X j).2 h)]
  · rw [if_neg h, if_neg (fun h' => h ((normCol_eq_zero_iff X j).1 h')), normCol_eq]

/-- all-zero column: no division by zero (`τ_j = 1`), the pseudo-gradient vanishes, the update is
    `w_j ← prox(w_j, 1)`, no other coefficient and no entry of `Xw` moves -/
theorem step_zero_column (X : Fin n → Fin p → ℝ) (y : Fin n → ℝ) (df : PDDatafit ℝ) (pn : SepPen ℝ)
    (wts : Fin p → ℝ) (sn : ℝ) (s : PDState ℝ n p) (j : Fin p) (hcol : ∀ i, X i j = 0) :
    (PDProb.ofData X y df pn wts sn).tau j = 1 ∧
    ((PDProb.ofData X y df pn wts sn).pdcdStep s j).w j = pn.prox1 (wts j) (s.w j) 1 ∧
    (∀ k, k ≠ j → ((PDProb.ofData X y df pn wts sn).pdcdStep s j).w k = s.w k) ∧
    ((PDProb.ofData X y df pn wts sn).pdcdStep s j).Xw = s.Xw := by
  have hτ : (PDProb.ofData X y df pn wts sn).tau j = 1 := by
    rw [primal_step_eq, if_pos hcol]
  obtain ⟨h1, h2⟩ := newVal_zero_column (PDProb.ofData X y df pn wts sn) s j hcol
  refine ⟨hτ, ?_, fun k hk => ?_, ?_⟩
  · rw [step_w, if_pos rfl, h1, hτ]; rfl
  · rw [step_w, if_neg hk]
  · rw [step_Xw, h2]

/-- the coordinate of a null column **stays where it is** exactly when it is a fixed point of
    `prox(·, 1)` … -/
theorem step_zero_column_stays_iff (X : Fin n → Fin p → ℝ) (y : Fin n → ℝ) (df : PDDatafit ℝ)
    (pn : SepPen ℝ) (wts : Fin p → ℝ) (sn : ℝ) (s : PDState ℝ n p) (j : Fin p)
    (hcol : ∀ i, X i j = 0) :
    ((PDProb.ofData X y df pn wts sn).pdcdStep s j).w = s.w ↔ pn.prox1 (wts j) (s.w j) 1 = s.w j := by
  obtain ⟨_, h1, h2, _⟩ := step_zero_column X y df pn wts sn s j hcol
  constructor
  · intro h; rw [← h1, h]
  · intro h
    funext k
    by_cases hk : k = j
    · rw [hk, h1, h]
    · exact h2 k hk

/-- … which holds from `w_j = 0` (cold start) for the sparsity penalties and the two indicators … -/
theorem step_zero_column_keeps_zero (X : Fin n → Fin p → ℝ) (y : Fin n → ℝ) (df : PDDatafit ℝ)
    (pn : SepPen ℝ) (wts : Fin p → ℝ) (sn : ℝ) (s : PDState ℝ n p) (j : Fin p)
    (hcol : ∀ i, X i j = 0) (hw : s.w j = 0)
    (hpen : C19.SparsityPen pn (wts j) ∨ pn = .pos ∨ ∃ a, pn = .box a ∧ 0 ≤ a) :
    ((PDProb.ofData X y df pn wts sn).pdcdStep s j).w = s.w := by
  rw [step_zero_column_stays_iff X y df pn wts sn s j hcol, hw]
  rcases hpen with h | h | ⟨a, h, ha⟩
  · exact C19.prox1_zero _ _ _ h zero_le_one
  · rw [h]; simp [SepPen.prox1, smax_eq]
  · rw [h]
    simp only [SepPen.prox1, box_proj]
    rw [if_neg (not_lt.2 ha), if_neg (lt_irrefl _)]

/-- … and from any feasible value for the two indicators (the prox is a projection) -/
theorem step_zero_column_keeps_feasible (X : Fin n → Fin p → ℝ) (y : Fin n → ℝ) (df : PDDatafit ℝ)
    (pn : SepPen ℝ) (wts : Fin p → ℝ) (sn : ℝ) (s : PDState ℝ n p) (j : Fin p)
    (hcol : ∀ i, X i j = 0)
    (hpen : (pn = .pos ∧ 0 ≤ s.w j) ∨ ∃ a, pn = .box a ∧ 0 ≤ s.w j ∧ s.w j ≤ a) :
    ((PDProb.ofData X y df pn wts sn).pdcdStep s j).w = s.w := by
  rw [step_zero_column_stays_iff X y df pn wts sn s j hcol]
  rcases hpen with ⟨h, h0⟩ | ⟨a, h, h0, h1⟩ <;> rw [h]
  · simp only [SepPen.prox1, smax_eq, max_eq_right h0]
  · simp only [SepPen.prox1, box_proj]
    rw [if_neg (not_lt.2 h1), if_neg (not_lt.2 h0)]

/-- the warm-started state of `step_zero_column_moves`: `w = [0, 2]`, `Xw = X w = [0]` -/
noncomputable def zcState : PDState ℝ 1 2 :=
  ⟨fun k => if k = 0 then 0 else 2, fun _ => 0, fun _ => 0, fun _ => 0⟩

/-- **the coordinate does not stay in general**: ℓ1 with `α = 1`, a null column, warm start
    `w_j = 2`: the pass writes `ST(2, 1) = 1` (and `0` at the next pass).  Python:
    `X = [[1., 0.]]; y = [3.]; w = [0., 2.]`, `_solve_subproblem(…, ws=[1], max_epochs=1)`
    leaves `w = [0., 1.]`. -/
theorem step_zero_column_moves :
    ∃ (P : PDProb ℝ 1 2) (s : PDState ℝ 1 2) (j : Fin 2),
      P = PDProb.ofData (fun _ k => if k = 0 then 1 else 0) (fun _ => 3) .sqrtQuad (.l1 1 false)
        (fun _ => 1) 1 ∧
      (∀ i, P.X i j = 0) ∧ Consistent P s ∧ s.w j = 2 ∧ (P.pdcdStep s j).w j = 1 := by
  refine ⟨_, zcState, 1, rfl, fun i => by simp [PDProb.ofData], fun i => ?_, by simp [zcState], ?_⟩
  · simp [PDProb.ofData, Fin.sum_univ_two, zcState]
  · obtain ⟨_, h, _, _⟩ := step_zero_column (fun (_ : Fin 1) (k : Fin 2) => if k = 0 then (1:ℝ) else 0)
      (fun _ => 3) .sqrtQuad (.l1 1 false) (fun _ => 1) 1 zcState 1 (fun i => by simp)
    rw [h]
    simp [SepPen.prox1, ST, zcState]
    norm_num

/-- the update of a null column is harmless: with an optimal prox the documented penalty of the
    coordinate does not increase (and `Xw`, hence the datafit, does not move) -/
theorem step_zero_column_penalty_le (X : Fin n → Fin p → ℝ) (y : Fin n → ℝ) (df : PDDatafit ℝ)
    (pn : SepPen ℝ) (wts : Fin p → ℝ) (sn : ℝ) (s : PDState ℝ n p) (j : Fin p)
    (hcol : ∀ i, X i j = 0) (hopt : ∀ v, ProxLe pn (wts j) (s.w j) 1 (pn.prox1 (wts j) (s.w j) 1) v)
    (pw : ℝ) (hpw : pen pn (wts j) (s.w j) = some pw) :
    ∃ pu, pen pn (wts j) (((PDProb.ofData X y df pn wts sn).pdcdStep s j).w j) = some pu ∧ pu ≤ pw := by
  obtain ⟨_, h1, _, _⟩ := step_zero_column X y df pn wts sn s j hcol
  rw [h1]
  have h := hopt (s.w j)
  cases hpu : pen pn (wts j) (pn.prox1 (wts j) (s.w j) 1) with
  | none => simp only [ProxLe, hpu] at h
  | some pu =>
    refine ⟨pu, rfl, ?_⟩
    simp only [ProxLe, hpu, hpw] at h
    nlinarith [sq_nonneg (pn.prox1 (wts j) (s.w j) 1 - s.w j)]

/-- **pre-repair formula** (`primal_steps = 1 / norm(X, axis=0, ord=2)`, before commit d14cecb):
    on a null column the divisor is `0` -/
theorem old_primal_step_divides_by_zero (X : Fin n → Fin p → ℝ) (y : Fin n → ℝ) (df : PDDatafit ℝ)
    (pn : SepPen ℝ) (wts : Fin p → ℝ) (sn : ℝ) (j : Fin p) (hcol : ∀ i, X i j = 0) :
    (PDProb.ofDataOld X y df pn wts sn).tau j = 1 / PDProb.normCol X j ∧ PDProb.normCol X j = 0 :=
  ⟨ofDataOld_tau X y df pn wts sn j, (normCol_eq_zero_iff X j).2 hcol⟩

/-! #### the guard on the `Float` instance of the model

  `X = [[1, 2, 0], [3, -1, 0], [0.5, 0.25, 0]]`, `y = [1, -2, 0.5]`, `IndicatorBox(1.5)`,
  `SqrtQuadratic()`, cold start, one pass over `[0, 1, 2]`.  Pre-repair: `primal_steps[2] = inf`,
  `inf * 0. = nan`, `box_proj(nan, 0, 1.5) = nan`, `delta_w_j = nan` is truthy, `Xw += nan * 0.`:
  the whole state is `nan` (observed on the library at commit 59d5d19:
  `PDCD_WS(max_iter=3, max_epochs=7).solve(X, y, SqrtQuadratic(), IndicatorBox(1.5))` returns
  `w = [nan nan nan]`, `stop_crit = nan`; with `L1` the soft-thresholding maps `nan` to `0` and hides
  it; `PositiveConstraint` (`max(0., nan) = 0.`) too).  With the guard every entry is finite. -/

def fX : Fin 3 → Fin 3 → Float := fun i j =>
  (#[#[1., 2., 0.], #[3., -1., 0.], #[0.5, 0.25, 0.]][i.1]!)[j.1]!
def fy : Fin 3 → Float := fun i => #[1., -2., 0.5][i.1]!
def fS0 : PDState Float 3 3 := PDProb.init none none none
def fNew (pn : SepPen Float) : PDProb Float 3 3 :=
  PDProb.ofData fX fy .sqrtQuad pn (fun _ => 1) 3.2239129078315205
def fOld (pn : SepPen Float) : PDProb Float 3 3 :=
  PDProb.ofDataOld fX fy .sqrtQuad pn (fun _ => 1) 3.2239129078315205

#guard (fNew (.box 1.5)).tau 2 == 1 && ((fOld (.box 1.5)).tau 2).isInf
#guard (((fOld (.box 1.5)).epoch fS0 [0, 1, 2]).w 2).isNaN &&
  (((fOld (.box 1.5)).epoch fS0 [0, 1, 2]).Xw 0).isNaN &&
  (((fOld (.box 1.5)).epoch fS0 [0, 1, 2]).z 1).isNaN
#guard (((fOld (.l1 0.1 false)).epoch fS0 [0, 1, 2]).w 2) == 0 &&
  (((fOld .pos).epoch fS0 [0, 1, 2]).w 2) == 0
#guard (((fNew (.box 1.5)).epoch fS0 [0, 1, 2]).w 2) == 0 &&
  (((fNew (.box 1.5)).epoch fS0 [0, 1, 2]).Xw 0).isFinite &&
  (((fNew (.box 1.5)).epoch fS0 [0, 1, 2]).z 1).isFinite
#guard ((fOld (.box 1.5)).stopCrit ((fOld (.box 1.5)).epoch fS0 [0, 1, 2])).isNaN

/-! ### (c) feasibility [C04] -/

/-- the prox maps into the feasible set -/
theorem step_feasible (P : PDProb ℝ n p) (s : PDState ℝ n p) (j : Fin p) (hf : Feasible P s.w)
    (hadm : Admissible P.pen (P.wts j) (P.tau j)) : Feasible P (P.pdcdStep s j).w :=
  pdcdStep_feasible P s j hf hadm

/-- for the constraint-carrying penalties and the steps `_solve` computes, admissibility only
    asks for the documented parameter ranges: `IndicatorBox(alpha ≥ 0)`, `PositiveConstraint()`,
    `L1(alpha ≥ 0, positive=True)` (weighted: non-negative weights) -/
theorem admissible_ofData (X : Fin n → Fin p → ℝ) (y : Fin n → ℝ) (df : PDDatafit ℝ)
    (pn : SepPen ℝ) (wts : Fin p → ℝ) (sn : ℝ) (j : Fin p) (hwt : 0 ≤ wts j)
    (hpen : (∃ a, pn = .box a ∧ 0 ≤ a) ∨ pn = .pos ∨ (∃ a pos, pn = .l1 a pos ∧ 0 ≤ a) ∨
      (∃ a pos, pn = .wl1 a pos ∧ 0 ≤ a)) :
    Admissible pn (wts j) ((PDProb.ofData X y df pn wts sn).tau j) := by
  refine ⟨primal_step_pos X y df pn wts sn j, hwt, ?_⟩
  rcases hpen with ⟨a, h, ha⟩ | h | ⟨a, pos, h, ha⟩ | ⟨a, pos, h, ha⟩ <;> rw [h]
  · exact ha
  · trivial
  · exact ha
  · exact ha

/-- from a feasible start every reachable state is feasible -/
theorem reach_feasible (P : PDProb ℝ n p) (s₀ s : PDState ℝ n p) (h₀ : Feasible P s₀.w)
    (hadm : ∀ j, Admissible P.pen (P.wts j) (P.tau j)) (h : PDReach P s₀ s) : Feasible P s.w := by
  induction h with
  | start => exact h₀
  | step j _ ih => exact step_feasible P _ j ih (hadm j)

/-- the cold start is feasible for every penalty except a box with a negative upper bound -/
theorem cold_start_feasible (P : PDProb ℝ n p) (dual0 : Option (Fin n → ℝ))
    (hbox : ∀ a, P.pen = .box a → 0 ≤ a) :
    Feasible P (PDProb.init (n := n) none none dual0).w := by
  intro j
  refine CDB.pen_isSome_of _ _ _ ?_ ?_
  · rintro ⟨_, h⟩; exact lt_irrefl _ h
  · intro a ha; exact ⟨le_refl _, hbox a ha⟩

/-- run level: `PDCD_WS` with `IndicatorBox` / `PositiveConstraint` / positive (weighted) ℓ1 returns
    a feasible vector, from the cold start, for all data and all settings -/
theorem solve_feasible (X : Fin n → Fin p → ℝ) (y : Fin n → ℝ) (df : PDDatafit ℝ)
    (pn : SepPen ℝ) (wts : Fin p → ℝ) (sn : ℝ) (hwt : ∀ j, 0 ≤ wts j)
    (hpen : (∃ a, pn = .box a ∧ 0 ≤ a) ∨ pn = .pos ∨ (∃ a pos, pn = .l1 a pos ∧ 0 ≤ a) ∨
      (∃ a pos, pn = .wl1 a pos ∧ 0 ≤ a))
    (sel : (Fin p → ℝ) → Nat → List (Fin p)) (p0 maxEpochs maxIter : Nat) (tol : ℝ)
    (dual0 : Option (Fin n → ℝ)) :
    Feasible (PDProb.ofData X y df pn wts sn)
      ((PDProb.ofData X y df pn wts sn).solve sel p0 maxEpochs maxIter tol none none dual0).1.w := by
  refine reach_feasible _ _ _ (cold_start_feasible _ dual0 ?_)
    (fun j => admissible_ofData X y df pn wts sn j (hwt j) hpen) (reach_solve _ sel _ _ _ _ _ _ _)
  intro a ha
  rcases hpen with ⟨a', h, ha'⟩ | h | ⟨a', pos, h, _⟩ | ⟨a', pos, h, _⟩
  · have : pn = SepPen.box a := ha
    rw [h] at this
    cases this; exact ha'
  all_goals
    have : pn = SepPen.box a := ha
    rw [h] at this
    cases this


/-! ### the `1 × 1` square-root Lasso used by the witnesses -/

/-- `X = [[1.]]`, `y = [yv]`, `SqrtQuadratic()`, `L1(a)`; `norm(X, ord=2) = 1` -/
noncomputable def P11 (yv a : ℝ) : PDProb ℝ 1 1 :=
  PDProb.ofData (fun _ _ => 1) (fun _ => yv) .sqrtQuad (.l1 a false) (fun _ => 1) 1

/-- the state `w = [w]`, `Xw = [w]` (consistent), `z = [z]`, `z_bar = [zb]` -/
def mk11 (w z zb : ℝ) : PDState ℝ 1 1 := ⟨fun _ => w, fun _ => w, fun _ => z, fun _ => zb⟩

/-- projection on `[-1, 1]` as `proj_L2ball` computes it for one sample -/
noncomputable def clip (x : ℝ) : ℝ := if |x| ≤ 1 then x else x / |x|

theorem norm2_one (v : Fin 1 → ℝ) : norm2 v = |v 0| := by
  rw [norm2_eq, Fin.sum_univ_one, Real.sqrt_mul_self_eq_abs]

theorem projL2ball_one (v : Fin 1 → ℝ) (i : Fin 1) : projL2ball v i = clip (v 0) := by
  rw [projL2ball_eq, norm2_one, Subsingleton.elim i 0]
  unfold clip
  split_ifs <;> rfl

theorem P11_tau (yv a : ℝ) (j : Fin 1) : (P11 yv a).tau j = 1 := by
  unfold P11
  rw [ofData_tau]
  have : PDProb.normCol (fun (_ : Fin 1) (_ : Fin 1) => (1 : ℝ)) j = 1 := by
    unfold PDProb.normCol; rw [norm2_one]; norm_num
  rw [this]; norm_num

theorem P11_sigma (yv a : ℝ) : (P11 yv a).sigma = 1 := by simp [P11, PDProb.ofData]

theorem P11_consistent (yv a w z zb : ℝ) : Consistent (P11 yv a) (mk11 w z zb) := by
  intro i; simp [P11, PDProb.ofData, mk11]

theorem P11_step (yv a w z zb : ℝ) :
    (P11 yv a).pdcdStep (mk11 w z zb) 0
      = mk11 (ST (w - (2 * zb - z)) a false)
          (clip (z + ST (w - (2 * zb - z)) a false - yv))
          (clip (z + ST (w - (2 * zb - z)) a false - yv)) := by
  have hnew : newVal (P11 yv a) (mk11 w z zb) 0 = ST (w - (2 * zb - z)) a false := by
    unfold newVal
    rw [P11_tau]
    simp [P11, PDProb.ofData, mk11, SepPen.prox1]
  have hzb : ∀ i, zbarNext (P11 yv a) (mk11 w z zb) 0 i
      = clip (z + ST (w - (2 * zb - z)) a false - yv) := by
    intro i
    unfold zbarNext
    rw [P11_sigma]
    have hdf : (P11 yv a).df = .sqrtQuad := rfl
    rw [hdf, proxConj_sqrtQuad, projL2ball_one]
    simp only [XwNext, hnew]
    simp [P11, PDProb.ofData, mk11]
  rw [step_eq]
  refine state_ext _ _ ?_ ?_ ?_ ?_
  · funext k
    simp only [Subsingleton.elim k 0, if_true, hnew]
    rfl
  · funext i
    simp only [XwNext, hnew]
    simp [P11, PDProb.ofData, mk11]
  · funext i
    simp only [hzb]
    simp [mk11]
  · funext i
    simp only [hzb]
    rfl

theorem P11_stopCrit (yv a w z zb : ℝ) :
    (P11 yv a).stopCrit (mk11 w z zb)
      = max |w - ST (w - z) a false| |z - clip (z + w - yv)| := by
  have hp : ∀ j, proxPoint (P11 yv a) (mk11 w z zb).w (mk11 w z zb).z j = ST (w - z) a false := by
    intro j
    unfold proxPoint XTz
    rw [P11_tau]
    simp [P11, PDProb.ofData, mk11, SepPen.prox1]
  have hz : ∀ i, (P11 yv a).nextZ (mk11 w z zb) i = clip (z + w - yv) := by
    intro i
    rw [nextZ_eq, P11_sigma]
    have hdf : (P11 yv a).df = .sqrtQuad := rfl
    rw [hdf, proxConj_sqrtQuad, projL2ball_one]
    simp [P11, PDProb.ofData, mk11]
  apply le_antisymm
  · rw [stopCrit_le_iff]
    refine ⟨le_max_of_le_left (abs_nonneg _), fun j => ?_, fun i => ?_⟩
    · rw [hp]; exact le_max_left _ _
    · rw [hz]; exact le_max_right _ _
  · obtain ⟨_, h1, h2⟩ := (stopCrit_le_iff _ _ _).1 (le_refl ((P11 yv a).stopCrit (mk11 w z zb)))
    have a1 := h1 0
    have a2 := h2 0
    rw [hp] at a1
    rw [hz] at a2
    exact max_le a1 a2


theorem clip_eq (x : ℝ) : clip x = if x < -1 then -1 else if 1 < x then 1 else x := by
  unfold clip
  rcases lt_trichotomy x 0 with h | h | h
  · rw [abs_of_neg h]
    by_cases h1 : x < -1
    · rw [if_neg (by linarith), if_pos h1]
      rw [div_neg, div_self h.ne]
    · rw [if_pos (by linarith), if_neg h1, if_neg (by linarith)]
  · subst h; norm_num
  · rw [abs_of_pos h]
    by_cases h1 : 1 < x
    · rw [if_neg (by linarith), if_neg (by linarith), if_pos h1, div_self h.ne']
    · rw [if_pos (by linarith), if_neg (by linarith), if_neg h1]

/-! ### (d) fixed points, saddle points, the stopping criterion [C01] -/

/-- the C07 theorems discharge `ProxOptimal` for the penalties they cover -/
theorem proxOptimal_of_admissible (P : PDProb ℝ n p) (j : Fin p) (st : ℝ)
    (hpen : (∃ a pos, P.pen = .l1 a pos) ∨ (∃ a pos, P.pen = .wl1 a pos) ∨
            (∃ a r pos, P.pen = .l1l2 a r pos) ∨
            (∃ a g pos, P.pen = .mcp a g pos) ∨ (∃ a g pos, P.pen = .wmcp a g pos) ∨
            (∃ a, P.pen = .box a) ∨ P.pen = .pos)
    (hadm : Admissible P.pen (P.wts j) st) : ProxOptimal P j st := by
  intro x v
  rcases hpen with ⟨a, pos, hp⟩ | ⟨a, pos, hp⟩ | ⟨a, r, pos, hp⟩ | ⟨a, g, pos, hp⟩ |
    ⟨a, g, pos, hp⟩ | ⟨a, hp⟩ | hp <;> rw [hp] at hadm ⊢
  · exact C07.prox_l1 a pos _ x st hadm v
  · exact C07.prox_wl1 a pos _ x st hadm v
  · exact C07.prox_l1l2 a r pos _ x st hadm v
  · exact C07.prox_mcp a g pos _ x st hadm v
  · exact C07.prox_wmcp a g pos _ x st hadm v
  · exact C07.prox_box a _ x st hadm v
  · exact C07.prox_pos _ x st hadm v

/-- **Moreau for the code's `prox_conjugate`**: `ζ = prox_conjugate(v, σ, y)` is a sub-gradient of
    the datafit at `(v - ζ)/σ` — SqrtQuadratic and Pinball (any `quantile_level`), all `v, y`,
    `σ > 0` -/
theorem prox_conjugate_is_subgradient (d : PDDatafit ℝ) (v : Fin n → ℝ) (σ : ℝ) (hσ : 0 < σ)
    (y : Fin n → ℝ) :
    SubgradAt d y (fun i => (v i - d.proxConj v σ y i) / σ) (d.proxConj v σ y) :=
  proxConj_subgrad d v σ hσ y

/-- the fixed points of the coordinate passes are the zeros of the reported criterion:
    a state with `z_bar = z` is left unchanged — in `w` and in `z` — by every coordinate step
    iff `stop_crit = 0` (`≤ 0`: the criterion is non-negative) -/
theorem fixed_point_iff_stop_zero (P : PDProb ℝ n p) (s : PDState ℝ n p) (hp : 0 < p)
    (hzb : s.zbar = s.z) :
    (∀ j, (P.pdcdStep s j).w = s.w ∧ (P.pdcdStep s j).z = s.z) ↔ P.stopCrit s ≤ 0 := by
  constructor
  · exact stopCrit_zero_of_fixed P s hp hzb
  · intro h j
    rw [fixed_of_stopCrit_zero P s hzb h j]
    exact ⟨rfl, rfl⟩

/-- … and then the whole state (buffer and `z_bar` included) is unchanged, by every pass, every
    epoch over every working set -/
theorem stop_zero_epoch_fixed (P : PDProb ℝ n p) (s : PDState ℝ n p) (hzb : s.zbar = s.z)
    (h : P.stopCrit s ≤ 0) (ws : List (Fin p)) : P.epoch s ws = s := by
  unfold PDProb.epoch
  induction ws with
  | nil => rfl
  | cons j ws ih => rw [List.foldl_cons, fixed_of_stopCrit_zero P s hzb h j, ih]

theorem stop_crit_nonneg (P : PDProb ℝ n p) (s : PDState ℝ n p) : 0 ≤ P.stopCrit s :=
  critOn_nonneg P s _

/-- **fixed points are saddle points**: in a consistent state with `z_bar = z`, if every coordinate
    step leaves `(w, z)` unchanged then `(w, z)` satisfies the primal-dual optimality conditions of
    `min_w f(Xw) + Σ_j g_j(w_j)`: `-(Xᵀz)_j ∈ ∂g_j(w_j)` for every `j` and `z ∈ ∂f(Xw)` — convex
    penalty with an optimal prox (ℓ1, weighted ℓ1, elastic net, box, positivity: C07), positive
    steps, both datafits -/
theorem fixed_point_is_saddle (P : PDProb ℝ n p) (s : PDState ℝ n p) (hp : 0 < p)
    (hc : Consistent P s) (hσ : 0 < P.sigma) (hτ : ∀ j, 0 < P.tau j)
    (hprox : ∀ j, ProxOptimal P j (P.tau j)) (hconv : ∀ j, C02.ConvexPen P.pen (P.wts j))
    (hzb : s.zbar = s.z)
    (hfix : ∀ j, (P.pdcdStep s j).w = s.w ∧ (P.pdcdStep s j).z = s.z) : Saddle P s.w s.z :=
  saddle_of_stopCrit_zero P s hc hσ hτ hprox hconv (stopCrit_zero_of_fixed P s hp hzb hfix)

/-- **pass level**: a pass over all the features (each once, in any order — `np.argpartition` with
    `ws_size = n_features`) started with `z_bar = z` that returns to its start (same `w`, `z`,
    `z_bar`) is made of identity steps, and `(w, z)` is a saddle point -/
theorem pass_fixed_point_is_saddle (P : PDProb ℝ n p) (s : PDState ℝ n p) (ws : List (Fin p))
    (hnd : ws.Nodup) (hall : ∀ j, j ∈ ws) (hp : 0 < p)
    (hc : Consistent P s) (hσ : 0 < P.sigma) (hτ : ∀ j, 0 < P.tau j)
    (hprox : ∀ j, ProxOptimal P j (P.tau j)) (hconv : ∀ j, C02.ConvexPen P.pen (P.wts j))
    (hzb : s.zbar = s.z) (hw : (P.epoch s ws).w = s.w) (hz : (P.epoch s ws).z = s.z)
    (hzb' : (P.epoch s ws).zbar = s.zbar) :
    (∀ j, P.pdcdStep s j = s) ∧ Saddle P s.w s.z := by
  have h0 := stopCrit_zero_of_pass_fixed P s ws hnd hall hp hzb hw hz hzb'
  exact ⟨fixed_of_stopCrit_zero P s hzb h0, saddle_of_stopCrit_zero P s hc hσ hτ hprox hconv h0⟩

/-- a saddle point gives a global minimiser of the documented objective `f(Xw) + Σ_j g_j(w_j)`
    over the feasible points -/
theorem saddle_is_minimiser (P : PDProb ℝ n p) (w : Fin p → ℝ) (z : Fin n → ℝ)
    (hs : Saddle P w z) (v : Fin p → ℝ) (hv : Feasible P v) : trueObj P w ≤ trueObj P v :=
  saddle_minimiser P w z hs v hv

/-- … which is the value the solver reports in `p_objs` (consistent feasible state) -/
theorem objective_is_documented (P : PDProb ℝ n p) (s : PDState ℝ n p) (h : Consistent P s)
    (hf : Feasible P s.w)
    (hg : ∀ a g pos, P.pen = .mcp a g pos ∨ P.pen = .wmcp a g pos → 0 < g) :
    P.objective s = .fin (trueObj P s.w) := objective_eq_trueObj P s h hf hg

/-- the state of `pass_leaves_wz_not_saddle`: `w = [0]`, `Xw = [0]`, `z = [1]`, `z_bar = [1/2]` -/
noncomputable def nsState : PDState ℝ 1 1 := mk11 0 1 (1 / 2)

/-- **the hypothesis `z_bar = z` cannot be dropped**: "a full pass over all features leaves `(w, z)`
    unchanged ⇒ saddle point" is false.  `X = [[1.]]`, `y = [0.]`, `SqrtQuadratic()`, `L1(0.5)`,
    state `w = [0]`, `Xw = [0]`, `z = [1]`, `z_bar = [0.5]`: the pass keeps `w` and `z` (it moves
    `z_bar` to `1`), yet `-(Xᵀz) = -1 ∉ ∂(0.5|·|)(0) = [-0.5, 0.5]`; the *next* pass moves `w` to
    `-0.5`.  Python: `_solve_subproblem(y, X, w, Xw, z, z_bar, SqrtQuadratic(), L1(.5),
    primal_steps=[1.], dual_step=1., ws=[0], max_epochs=1, tol_in=0.)`. -/
theorem pass_leaves_wz_not_saddle :
    Consistent (P11 0 (1 / 2)) nsState ∧
    ((P11 0 (1 / 2)).epoch nsState (PDProb.allFeatures 1)).w = nsState.w ∧
    ((P11 0 (1 / 2)).epoch nsState (PDProb.allFeatures 1)).z = nsState.z ∧
    ¬ Saddle (P11 0 (1 / 2)) nsState.w nsState.z ∧
    ((P11 0 (1 / 2)).epoch ((P11 0 (1 / 2)).epoch nsState (PDProb.allFeatures 1))
      (PDProb.allFeatures 1)).w 0 = -(1 / 2) := by
  have hall : PDProb.allFeatures 1 = [0] := by simp [PDProb.allFeatures, List.finRange_succ]
  have h1 : (P11 0 (1 / 2)).epoch nsState (PDProb.allFeatures 1) = mk11 0 1 1 := by
    rw [hall]
    show (P11 0 (1 / 2)).pdcdStep (mk11 0 1 (1 / 2)) 0 = _
    rw [P11_step]
    have e1 : ST ((0 : ℝ) - (2 * (1 / 2) - 1)) (1 / 2) false = 0 := by norm_num [ST]
    rw [e1]
    have e2 : clip (1 + 0 - 0) = 1 := by norm_num [clip_eq]
    rw [e2]
  refine ⟨P11_consistent _ _ _ _ _, by rw [h1]; rfl, by rw [h1]; rfl, ?_, ?_⟩
  · rintro ⟨hpen, _⟩
    obtain ⟨pw, hpw, hsg⟩ := hpen 0
    have hx : XTz (P11 0 (1 / 2)) nsState.z 0 = 1 := by
      simp [XTz, P11, PDProb.ofData, nsState, mk11]
    have hpen0 : (P11 0 (1 / 2)).pen = .l1 (1 / 2) false := rfl
    rw [hx, hpen0] at hsg
    rw [hpen0] at hpw
    have hw0 : nsState.w 0 = 0 := rfl
    rw [hw0] at hpw hsg
    have e0 : pen (.l1 (1 / 2) false) ((P11 0 (1 / 2)).wts 0) 0 = some 0 := by simp [pen, SepPen.positive]
    rw [e0] at hpw
    obtain rfl := Option.some.inj hpw
    have e1 : pen (.l1 (1 / 2) false) ((P11 0 (1 / 2)).wts 0) (-1) = some (1 / 2) := by
      simp [pen, SepPen.positive]
    have := hsg (-1) (1 / 2) e1
    norm_num at this
  · rw [h1, hall]
    show ((P11 0 (1 / 2)).pdcdStep (mk11 0 1 1) 0).w 0 = _
    rw [P11_step]
    show ST ((0 : ℝ) - (2 * 1 - 1)) (1 / 2) false = -(1 / 2)
    norm_num [ST]

/-- **what `stop_crit ≤ tol` certifies** (convex penalty, optimal prox, consistent buffer): a
    fixed-point residual.  For every feature there is a point `u_j` within `tol` of `w_j` at which
    `-(Xᵀz)_j + e_j ∈ ∂g_j(u_j)` with `|e_j| ≤ tol / τ_j = tol · ‖X_j‖`; and there is `ζ` within `tol`
    of `z` (sup norm) with `ζ ∈ ∂f(Xw + d)`, `‖d‖_∞ ≤ tol / σ = tol · ‖X‖₂`.  The optimality
    conditions are certified **at nearby points**, not at `(w, z)`. -/
theorem stop_certifies (P : PDProb ℝ n p) (s : PDState ℝ n p) (tol : ℝ) (hc : Consistent P s)
    (hσ : 0 < P.sigma) (hτ : ∀ j, 0 < P.tau j) (hprox : ∀ j, ProxOptimal P j (P.tau j))
    (hconv : ∀ j, C02.ConvexPen P.pen (P.wts j)) (hstop : P.stopCrit s ≤ tol) :
    (∀ j, ∃ u e, |s.w j - u| ≤ tol ∧ |e| ≤ tol / P.tau j ∧
        PenSubgrad P.pen (P.wts j) u (-(XTz P s.z j) + e)) ∧
    ∃ ζ d : Fin n → ℝ, (∀ i, |s.z i - ζ i| ≤ tol) ∧ (∀ i, |d i| ≤ tol / P.sigma) ∧
      SubgradAt P.df P.y (fun i => lin P s.w i + d i) ζ := by
  obtain ⟨h1, ζ, d, h2, h3, h4⟩ := stopCrit_certifies P s tol hσ hτ hprox hconv hstop
  refine ⟨h1, ζ, d, h2, h3, ?_⟩
  have : (fun i => lin P s.w i + d i) = fun i => s.Xw i + d i := by
    funext i; rw [hc i]; rfl
  rw [this]; exact h4

/-- `stop_crit = 0` is an exact certificate: saddle point, hence global minimiser -/
theorem stop_zero_is_saddle (P : PDProb ℝ n p) (s : PDState ℝ n p) (hc : Consistent P s)
    (hσ : 0 < P.sigma) (hτ : ∀ j, 0 < P.tau j) (hprox : ∀ j, ProxOptimal P j (P.tau j))
    (hconv : ∀ j, C02.ConvexPen P.pen (P.wts j)) (hstop : P.stopCrit s ≤ 0) :
    Saddle P s.w s.z ∧ ∀ v, Feasible P v → trueObj P s.w ≤ trueObj P v := by
  have h := saddle_of_stopCrit_zero P s hc hσ hτ hprox hconv hstop
  exact ⟨h, fun v hv => saddle_minimiser P s.w s.z h v hv⟩

/-- the reported `stop_crit` of a run that entered the loop and met the tolerance is the criterion
    of the **returned** state (when the loop is exhausted instead, the reported value — then
    `> tol` — is that of the state *before* the last subproblem) -/
theorem solve_stop_refers_to_returned_state (P : PDProb ℝ n p)
    (sel : (Fin p → ℝ) → Nat → List (Fin p)) (p0 maxEpochs maxIter : Nat) (tol : ℝ)
    (w0 : Option (Fin p → ℝ)) (Xw0 dual0 : Option (Fin n → ℝ)) (hit : 0 < maxIter)
    (hle : (P.solve sel p0 maxEpochs maxIter tol w0 Xw0 dual0).2.2 ≤ tol) :
    (P.solve sel p0 maxEpochs maxIter tol w0 Xw0 dual0).2.2
      = P.stopCrit (P.solve sel p0 maxEpochs maxIter tol w0 Xw0 dual0).1 :=
  solveLoop_crit P sel p0 maxEpochs tol maxIter _ 0 [] hit hle

/-- `max_iter = 0`: the start is returned with `stop_crit = 0.`, i.e. "converged" for every
    `tol ≥ 0`, whatever the start is (GramCD / FISTA report `inf` there) -/
theorem max_iter_zero (P : PDProb ℝ n p) (sel : (Fin p → ℝ) → Nat → List (Fin p))
    (p0 maxEpochs : Nat) (tol : ℝ) (w0 : Option (Fin p → ℝ)) (Xw0 dual0 : Option (Fin n → ℝ)) :
    P.solve sel p0 maxEpochs 0 tol w0 Xw0 dual0 = (PDProb.init w0 Xw0 dual0, [], 0) :=
  solve_zero_iter P sel p0 maxEpochs tol w0 Xw0 dual0

/-- run level, cold start: a converged run of `_solve` (`stop_crit ≤ tol`) returns a state in which
    the conclusion of `stop_certifies` holds with the user's `tol` -/
theorem solve_stop_certifies (P : PDProb ℝ n p) (sel : (Fin p → ℝ) → Nat → List (Fin p))
    (p0 maxEpochs maxIter : Nat) (tol : ℝ) (dual0 : Option (Fin n → ℝ)) (hit : 0 < maxIter)
    (hσ : 0 < P.sigma) (hτ : ∀ j, 0 < P.tau j) (hprox : ∀ j, ProxOptimal P j (P.tau j))
    (hconv : ∀ j, C02.ConvexPen P.pen (P.wts j))
    (hle : (P.solve sel p0 maxEpochs maxIter tol none none dual0).2.2 ≤ tol) :
    let s := (P.solve sel p0 maxEpochs maxIter tol none none dual0).1
    (∀ j, ∃ u e, |s.w j - u| ≤ tol ∧ |e| ≤ tol / P.tau j ∧
        PenSubgrad P.pen (P.wts j) u (-(XTz P s.z j) + e)) ∧
    ∃ ζ d : Fin n → ℝ, (∀ i, |s.z i - ζ i| ≤ tol) ∧ (∀ i, |d i| ≤ tol / P.sigma) ∧
      SubgradAt P.df P.y (fun i => lin P s.w i + d i) ζ := by
  intro s
  refine stop_certifies P s tol (solve_consistent P sel p0 maxEpochs maxIter tol dual0) hσ hτ hprox
    hconv ?_
  have := solve_stop_refers_to_returned_state P sel p0 maxEpochs maxIter tol none none dual0 hit hle
  rw [← this]; exact hle


/-- **the criterion is weaker than AndersonCD's sub-differential distance**: `X = [[1.]]`,
    `y = [ε]`, `SqrtQuadratic()`, `L1(1.)`, state `w = [ε]`, `z = z_bar = [0]` with `0 < ε ≤ 1`:
    `stop_crit = ε`, while **every** sub-gradient `g` of `|·|` at `w = ε` is at distance `1` from
    `-(Xᵀz) = 0` (`penalty.subdiff_distance` would report `1`) -/
theorem stop_weaker_than_subdiff_distance (ε : ℝ) (h0 : 0 < ε) (h1 : ε ≤ 1) :
    Consistent (P11 ε 1) (mk11 ε 0 0) ∧ (P11 ε 1).stopCrit (mk11 ε 0 0) = ε ∧
    ∀ g, PenSubgrad (P11 ε 1).pen ((P11 ε 1).wts 0) ((mk11 ε 0 0).w 0) g →
      |-(XTz (P11 ε 1) (mk11 ε 0 0).z 0) - g| = 1 := by
  refine ⟨P11_consistent _ _ _ _ _, ?_, ?_⟩
  · rw [P11_stopCrit]
    have e1 : ST (ε - 0) 1 false = 0 := by
      unfold ST
      rw [if_neg (by linarith), if_neg (by rintro ⟨h, _⟩; linarith)]
    have e2 : clip (0 + ε - ε) = 0 := by rw [clip_eq]; norm_num
    rw [e1, e2]
    simp [abs_of_pos h0, h0.le]
  · rintro g ⟨pw, hpw, hsg⟩
    have hx : XTz (P11 ε 1) (mk11 ε 0 0).z 0 = 0 := by simp [XTz, mk11]
    have hpen0 : (P11 ε 1).pen = .l1 1 false := rfl
    have hw0 : (mk11 ε 0 0).w 0 = ε := rfl
    rw [hpen0, hw0] at hpw hsg
    have e0 : pen (.l1 1 false) ((P11 ε 1).wts 0) ε = some ε := by
      simp [pen, SepPen.positive, abs_of_pos h0]
    rw [e0] at hpw
    obtain rfl := Option.some.inj hpw
    have ea : pen (.l1 1 false) ((P11 ε 1).wts 0) 0 = some 0 := by simp [pen, SepPen.positive]
    have eb : pen (.l1 1 false) ((P11 ε 1).wts 0) (2 * ε) = some (2 * ε) := by
      simp [pen, SepPen.positive, abs_of_pos h0]
    have ha := hsg 0 0 ea
    have hb := hsg (2 * ε) (2 * ε) eb
    have hg : g = 1 := by
      have : g * ε = ε := by nlinarith
      field_simp at this
      linarith
    rw [hx, hg]; norm_num

/-! ### (e) one feature: no extrapolation, and a cycle -/

/-- with `n_features = 1` the dual update `z += (z_bar - z) / n_features` gives `z = z_bar` after
    every pass, so the next pseudo-gradient `X_j @ (2 * z_bar - z)` is `X_j @ z_bar`: the
    extrapolation of the primal-dual method disappears -/
theorem single_feature_no_extrapolation (P : PDProb ℝ n 1) (s : PDState ℝ n 1) (j : Fin 1) :
    (P.pdcdStep s j).z = (P.pdcdStep s j).zbar := by
  funext i
  rw [step_z, step_zbar]
  simp

/-- the `k`-th state of `PDCD_WS` on `X = [[1.]]`, `y = [3.]`, `SqrtQuadratic()`, `L1(0.5)` from
    the cold start (one feature: every pass is on feature `0`) -/
noncomputable def cyc (k : Nat) : PDState ℝ 1 1 :=
  (fun s => (P11 3 (1 / 2)).pdcdStep s 0)^[k] (PDProb.init none none none)

theorem cyc_succ (k : Nat) : cyc (k + 1) = (P11 3 (1 / 2)).pdcdStep (cyc k) 0 := by
  unfold cyc; rw [Function.iterate_succ_apply']

theorem cyc_zero : cyc 0 = mk11 0 0 0 := rfl

theorem cyc_step (k : Nat) (w z w' z' : ℝ) (h : cyc k = mk11 w z z)
    (hw : ST (w - (2 * z - z)) (1 / 2) false = w') (hz : clip (z + w' - 3) = z') :
    cyc (k + 1) = mk11 w' z' z' := by
  rw [cyc_succ, h, P11_step, hw, hz]

theorem cyc_1 : cyc 1 = mk11 0 (-1) (-1) :=
  cyc_step 0 _ _ _ _ cyc_zero (by norm_num [ST]) (by norm_num [clip_eq])
theorem cyc_2 : cyc 2 = mk11 (1 / 2) (-1) (-1) :=
  cyc_step 1 _ _ _ _ cyc_1 (by norm_num [ST]) (by norm_num [clip_eq])
theorem cyc_3 : cyc 3 = mk11 1 (-1) (-1) :=
  cyc_step 2 _ _ _ _ cyc_2 (by norm_num [ST]) (by norm_num [clip_eq])
theorem cyc_4 : cyc 4 = mk11 (3 / 2) (-1) (-1) :=
  cyc_step 3 _ _ _ _ cyc_3 (by norm_num [ST]) (by norm_num [clip_eq])
theorem cyc_5 : cyc 5 = mk11 2 (-1) (-1) :=
  cyc_step 4 _ _ _ _ cyc_4 (by norm_num [ST]) (by norm_num [clip_eq])
theorem cyc_6 : cyc 6 = mk11 (5 / 2) (-1) (-1) :=
  cyc_step 5 _ _ _ _ cyc_5 (by norm_num [ST]) (by norm_num [clip_eq])
theorem cyc_7 : cyc 7 = mk11 3 (-1) (-1) :=
  cyc_step 6 _ _ _ _ cyc_6 (by norm_num [ST]) (by norm_num [clip_eq])
theorem cyc_8 : cyc 8 = mk11 (7 / 2) (-(1 / 2)) (-(1 / 2)) :=
  cyc_step 7 _ _ _ _ cyc_7 (by norm_num [ST]) (by norm_num [clip_eq])
theorem cyc_9 : cyc 9 = mk11 (7 / 2) 0 0 :=
  cyc_step 8 _ _ _ _ cyc_8 (by norm_num [ST]) (by norm_num [clip_eq])
theorem cyc_10 : cyc 10 = mk11 3 0 0 :=
  cyc_step 9 _ _ _ _ cyc_9 (by norm_num [ST]) (by norm_num [clip_eq])
theorem cyc_11 : cyc 11 = mk11 (5 / 2) (-(1 / 2)) (-(1 / 2)) :=
  cyc_step 10 _ _ _ _ cyc_10 (by norm_num [ST]) (by norm_num [clip_eq])
theorem cyc_12 : cyc 12 = mk11 (5 / 2) (-1) (-1) :=
  cyc_step 11 _ _ _ _ cyc_11 (by norm_num [ST]) (by norm_num [clip_eq])

/-- the run enters a cycle of period 6 after 6 passes -/
theorem cyc_period (k : Nat) : cyc (k + 12) = cyc (k + 6) := by
  unfold cyc
  rw [Function.iterate_add_apply, Function.iterate_add_apply _ k 6]
  congr 1
  exact cyc_12.trans cyc_6.symm

theorem crit11 (w z : ℝ) (c : ℝ) (h1 : |w - ST (w - z) (1 / 2) false| ≤ c)
    (h2 : |z - clip (z + w - 3)| ≤ c)
    (h3 : |w - ST (w - z) (1 / 2) false| = c ∨ |z - clip (z + w - 3)| = c) :
    (P11 3 (1 / 2)).stopCrit (mk11 w z z) = c := by
  rw [P11_stopCrit]
  apply le_antisymm (max_le h1 h2)
  rcases h3 with h | h
  · rw [← h]; exact le_max_left _ _
  · rw [← h]; exact le_max_right _ _

theorem cyc_crit_small (k : Nat) (h1 : 1 ≤ k) (h2 : k < 12) :
    (P11 3 (1 / 2)).stopCrit (cyc k) = 1 / 2 := by
  interval_cases k
  · rw [cyc_1]; apply crit11 <;> norm_num [ST, clip_eq, abs_of_pos, abs_of_neg]
  · rw [cyc_2]; apply crit11 <;> norm_num [ST, clip_eq, abs_of_pos, abs_of_neg]
  · rw [cyc_3]; apply crit11 <;> norm_num [ST, clip_eq, abs_of_pos, abs_of_neg]
  · rw [cyc_4]; apply crit11 <;> norm_num [ST, clip_eq, abs_of_pos, abs_of_neg]
  · rw [cyc_5]; apply crit11 <;> norm_num [ST, clip_eq, abs_of_pos, abs_of_neg]
  · rw [cyc_6]; apply crit11 <;> norm_num [ST, clip_eq, abs_of_pos, abs_of_neg]
  · rw [cyc_7]; apply crit11 <;> norm_num [ST, clip_eq, abs_of_pos, abs_of_neg]
  · rw [cyc_8]; apply crit11 <;> norm_num [ST, clip_eq, abs_of_pos, abs_of_neg]
  · rw [cyc_9]; apply crit11 <;> norm_num [ST, clip_eq, abs_of_pos, abs_of_neg]
  · rw [cyc_10]; apply crit11 <;> norm_num [ST, clip_eq, abs_of_pos, abs_of_neg]
  · rw [cyc_11]; apply crit11 <;> norm_num [ST, clip_eq, abs_of_pos, abs_of_neg]


/-- from the first pass on, the stopping criterion is `1/2` for ever -/
theorem cyc_crit : ∀ k, 1 ≤ k → (P11 3 (1 / 2)).stopCrit (cyc k) = 1 / 2 := by
  intro k
  induction k using Nat.strong_induction_on with
  | _ k ih =>
    intro h1
    by_cases h : k < 12
    · exact cyc_crit_small k h1 h
    · obtain ⟨m, rfl⟩ : ∃ m, k = m + 12 := ⟨k - 12, by omega⟩
      rw [cyc_period]
      exact ih (m + 6) (by omega) (by omega)

theorem cyc_crit_zero : (P11 3 (1 / 2)).stopCrit (cyc 0) = 1 := by
  rw [cyc_zero]; apply crit11 <;> norm_num [ST, clip_eq, abs_of_pos, abs_of_neg]

theorem cyc_crit_ge (k : Nat) : 1 / 2 ≤ (P11 3 (1 / 2)).stopCrit (cyc k) := by
  rcases Nat.eq_zero_or_pos k with rfl | h
  · rw [cyc_crit_zero]; norm_num
  · rw [cyc_crit k h]

/-- every state `PDCD_WS` can reach on this problem is one of the `cyc k` -/
theorem reach_cyc (s : PDState ℝ 1 1)
    (h : PDReach (P11 3 (1 / 2)) (PDProb.init none none none) s) : ∃ k, s = cyc k := by
  induction h with
  | start => exact ⟨0, rfl⟩
  | step j _ ih =>
    obtain ⟨k, rfl⟩ := ih
    exact ⟨k + 1, by rw [cyc_succ, Subsingleton.elim j 0]⟩

/-- **`PDCD_WS` does not converge on a `1 × 1` square-root Lasso**: `X = [[1.]]`, `y = [3.]`,
    `SqrtQuadratic()`, `L1(0.5)`, cold start.  For every `max_iter ≥ 1`, `max_epochs`, `p0`, every
    working-set rule and every `tol < 1/2` the returned `stop_crit` exceeds `tol`.  Observed on
    the library: `PDCD_WS(max_iter=1000, tol=1e-8).solve(X, y, SqrtQuadratic(), L1(0.5))` returns
    `stop_crit = 0.5` with a `ConvergenceWarning` after `10⁶` epochs; the iterates are
    `w = 0, .5, 1, 1.5, 2, 2.5, (3, 3.5, 3.5, 3, 2.5, 2.5)*`.  The minimiser is `w = 3`
    (`saddle_11`), a fixed point of the pass. -/
theorem single_feature_never_converges (sel : (Fin 1 → ℝ) → Nat → List (Fin 1))
    (p0 maxEpochs maxIter : Nat) (tol : ℝ) (hit : 0 < maxIter) (htol : tol < 1 / 2) :
    tol < ((P11 3 (1 / 2)).solve sel p0 maxEpochs maxIter tol none none none).2.2 := by
  obtain ⟨s', hr, he⟩ := solveLoop_crit_reach (P11 3 (1 / 2)) sel p0 maxEpochs tol
    (PDProb.init none none none) maxIter (PDProb.init none none none) 0 [] hit .start
  unfold PDProb.solve
  rw [he]
  obtain ⟨k, rfl⟩ := reach_cyc s' hr
  exact lt_of_lt_of_le htol (cyc_crit_ge k)

/-- the solution of that problem is a fixed point of the pass (the algorithm circles around it) -/
theorem saddle_11 :
    (P11 3 (1 / 2)).pdcdStep (mk11 3 (-(1 / 2)) (-(1 / 2))) 0 = mk11 3 (-(1 / 2)) (-(1 / 2)) ∧
    (P11 3 (1 / 2)).stopCrit (mk11 3 (-(1 / 2)) (-(1 / 2))) = 0 := by
  constructor
  · rw [P11_step]
    have h1 : ST ((3 : ℝ) - (2 * -(1 / 2) - -(1 / 2))) (1 / 2) false = 3 := by norm_num [ST]
    rw [h1]
    have h2 : clip (-(1 / 2) + 3 - 3) = -(1 / 2) := by norm_num [clip_eq]
    rw [h2]
  · apply crit11 <;> norm_num [ST, clip_eq]


/-! ### the datafits' `subdiff_distance` (never called by the solver) -/

theorem foldl_or_iff (x : Fin n → ℝ) (b : Bool) :
    Fin.foldl n (fun acc i => acc || nz (x i)) b = true ↔ b = true ∨ ∃ i, x i ≠ 0 := by
  induction n generalizing b with
  | zero => simp [Fin.foldl_zero]
  | succ n ih =>
    rw [Fin.foldl_succ_last, Bool.or_eq_true, ih, nz_iff]
    constructor
    · rintro ((h | ⟨i, hi⟩) | h)
      · exact Or.inl h
      · exact Or.inr ⟨i.castSucc, hi⟩
      · exact Or.inr ⟨Fin.last n, h⟩
    · rintro (h | ⟨i, hi⟩)
      · exact Or.inl (Or.inl h)
      · revert hi
        refine Fin.lastCases (fun hi => Or.inr hi) (fun i hi => Or.inl (Or.inr ⟨i, hi⟩)) i

theorem anyNz_iff (x : Fin n → ℝ) : anyNz x = true ↔ ∃ i, x i ≠ 0 := by
  unfold anyNz; rw [foldl_or_iff]; simp

theorem norm2_eq_zero_iff (v : Fin n → ℝ) : norm2 v = 0 ↔ ∀ i, v i = 0 := by
  rw [norm2_eq, Real.sqrt_eq_zero (Finset.sum_nonneg (fun i _ => mul_self_nonneg _))]
  constructor
  · intro h i
    exact mul_self_eq_zero.1 ((Finset.sum_eq_zero_iff_of_nonneg
      (fun i _ => mul_self_nonneg (v i))).1 h i (Finset.mem_univ _))
  · intro h
    exact Finset.sum_eq_zero (fun i _ => by rw [h i]; ring)

/-- `SqrtQuadratic.subdiff_distance` is sound: where it vanishes, `z ∈ ∂f(Xw)` -/
theorem sqrtQuad_subdiff_distance_sound (Xw z y : Fin n → ℝ)
    (h : (PDDatafit.sqrtQuad : PDDatafit ℝ).subdiffDistance Xw z y = 0) :
    SubgradAt .sqrtQuad y Xw z := by
  simp only [PDDatafit.subdiffDistance, mat_eq] at h
  set r : Fin n → ℝ := fun i => y i - Xw i with hr
  have key : norm2 z ≤ 1 ∧ norm2 r = ∑ i, (-z i) * r i := by
    by_cases hany : anyNz r = true
    · rw [if_pos hany, norm2_eq_zero_iff] at h
      obtain ⟨i0, hi0⟩ := (anyNz_iff r).1 hany
      have hN : 0 < norm2 r := by
        refine lt_of_le_of_ne (norm2_nonneg r) (fun h0 => hi0 ?_)
        exact (norm2_eq_zero_iff r).1 h0.symm i0
      have hz : ∀ i, z i = -(1 / norm2 r) * r i := fun i => by
        have := h i; field_simp; field_simp at this; linarith
      have hz' : z = fun i => -((1 / norm2 r) * r i) := by funext i; rw [hz i]; ring
      constructor
      · rw [hz', norm2_neg, norm2_smul _ (by positivity)]
        field_simp; exact le_refl _
      · have : ∀ i, -z i * r i = 1 / norm2 r * (r i * r i) := fun i => by rw [hz i]; ring
        simp only [this, ← Finset.mul_sum, ← norm2_sq]
        field_simp
    · rw [if_neg hany, norm2_eq_zero_iff] at h
      have hr0 : ∀ i, r i = 0 := by
        intro i
        by_contra hi
        exact hany ((anyNz_iff r).2 ⟨i, hi⟩)
      have hnr : norm2 r = 0 := (norm2_eq_zero_iff r).2 hr0
      constructor
      · by_contra hN
        have hN1 : 1 < norm2 z := not_le.1 hN
        have hz0 : ∀ i, z i = 0 := by
          intro i
          have := h i
          rw [projL2ball_eq, if_neg hN] at this
          have hne : norm2 z ≠ 0 := by linarith
          field_simp at this
          have : z i * (norm2 z - 1) = 0 := by linarith
          rcases mul_eq_zero.1 this with h' | h'
          · exact h'
          · linarith
        have := (norm2_eq_zero_iff z).2 hz0
        linarith
      · rw [hnr]
        simp [hr0]
  intro u'
  rw [value_sqrtQuad, value_sqrtQuad]
  have := sqrt_subgrad_of z r key.1 key.2 (fun i => y i - u' i)
  have e : ∑ i, z i * (u' i - Xw i) = ∑ i, (-z i) * ((y i - u' i) - r i) :=
    Finset.sum_congr rfl (fun i _ => by rw [hr]; ring)
  rw [e]; exact this

/-- **`Pinball.subdiff_distance` is not the distance to the sub-differential** (the function is
    never called; `shift_cst + np.sign(·)` should be `shift_cst + np.sign(·) / 2`, the branch for
    zero residuals has the wrong centre and radius).  One sample, `quantile_level = 1/2`, `y = 1`,
    `Xw = 0` (residual `1 > 0`, the loss is `|y - Xw| / 2` with derivative `-1/2` in `Xw`):
    at the sub-gradient `z = -1/2` the function returns `1/2`; it returns `0` at `z = -1`, which
    is not a sub-gradient.  Python: `Pinball(0.5).subdiff_distance(np.array([0.]),
    np.array([-0.5]), np.array([1.])) == 0.5`, `… np.array([-1.]) … == 0.0`. -/
theorem pinball_subdiff_distance_wrong :
    SubgradAt (.pinball (1 / 2)) (fun _ : Fin 1 => 1) (fun _ => 0) (fun _ => -(1 / 2)) ∧
    (PDDatafit.pinball (1 / 2 : ℝ)).subdiffDistance (fun _ : Fin 1 => 0) (fun _ => -(1 / 2))
      (fun _ => 1) = 1 / 2 ∧
    (PDDatafit.pinball (1 / 2 : ℝ)).subdiffDistance (fun _ : Fin 1 => 0) (fun _ => -1)
      (fun _ => 1) = 0 ∧
    ¬ SubgradAt (.pinball (1 / 2)) (fun _ : Fin 1 => 1) (fun _ => 0) (fun _ => -1) := by
  have hd : ∀ z : ℝ, (PDDatafit.pinball (1 / 2 : ℝ)).subdiffDistance (fun _ : Fin 1 => 0)
      (fun _ => z) (fun _ => 1) = |z + 1| := by
    intro z
    have hne : eqb (1 : ℝ) 0 = false := (eqb_false_iff _ _).2 (by norm_num)
    simp [PDDatafit.subdiffDistance, Fin.foldl_succ, Fin.foldl_zero, hne, smax_eq, sabs_eq,
      sgn_pos]
  refine ⟨?_, ?_, ?_, ?_⟩
  · intro u'
    rw [value_pinball, value_pinball]
    simp only [Fin.sum_univ_one, pinballLoss1_eq]
    split_ifs with h1 h2 h2 <;> linarith
  · rw [hd]; norm_num [abs_of_pos]
  · rw [hd]; norm_num
  · intro h
    have := h (fun _ => -1)
    rw [value_pinball, value_pinball] at this
    simp only [Fin.sum_univ_one, pinballLoss1_eq] at this
    norm_num at this


/-! ### non-vacuity -/

/-- the hypotheses of the theorems of (d) hold together for the problems `_solve` builds: any
    data, any `norm(X, ord=2) > 0`, both datafits, ℓ1 / weighted ℓ1 / box / positivity with
    parameters in their documented range -/
theorem hyps_ofData (X : Fin n → Fin p → ℝ) (y : Fin n → ℝ) (df : PDDatafit ℝ) (pn : SepPen ℝ)
    (wts : Fin p → ℝ) (sn : ℝ) (hsn : 0 < sn) (hwt : ∀ j, 0 ≤ wts j)
    (hpen : (∃ a, pn = .box a ∧ 0 ≤ a) ∨ pn = .pos ∨ (∃ a pos, pn = .l1 a pos ∧ 0 ≤ a) ∨
      (∃ a pos, pn = .wl1 a pos ∧ 0 ≤ a)) :
    let P := PDProb.ofData X y df pn wts sn
    0 < P.sigma ∧ (∀ j, 0 < P.tau j) ∧ (∀ j, ProxOptimal P j (P.tau j)) ∧
      (∀ j, C02.ConvexPen P.pen (P.wts j)) := by
  intro P
  refine ⟨one_div_pos.2 hsn, primal_step_pos X y df pn wts sn, fun j => ?_, fun j => ?_⟩
  · refine proxOptimal_of_admissible P j _ ?_ (admissible_ofData X y df pn wts sn j (hwt j) hpen)
    rcases hpen with ⟨a, h, _⟩ | h | ⟨a, pos, h, _⟩ | ⟨a, pos, h, _⟩
    · exact Or.inr (Or.inr (Or.inr (Or.inr (Or.inr (Or.inl ⟨a, h⟩)))))
    · exact Or.inr (Or.inr (Or.inr (Or.inr (Or.inr (Or.inr h)))))
    · exact Or.inl ⟨a, pos, h⟩
    · exact Or.inr (Or.inl ⟨a, pos, h⟩)
  · show C02.ConvexPen pn (wts j)
    rcases hpen with ⟨a, h, _⟩ | h | ⟨a, pos, h, ha⟩ | ⟨a, pos, h, ha⟩ <;> rw [h]
    · trivial
    · trivial
    · exact ha
    · exact mul_nonneg ha (hwt j)

/-- the square-root Lasso, all data: in any state of a cold-started run of `PDCD_WS` in which the
    reported criterion vanishes, `w` minimises `‖y - Xw‖₂ + α‖w‖₁` -/
theorem sqrt_lasso_stop_zero (X : Fin n → Fin p → ℝ) (y : Fin n → ℝ) (a sn : ℝ) (ha : 0 ≤ a)
    (hsn : 0 < sn) (s : PDState ℝ n p)
    (h : PDReach (PDProb.ofData X y .sqrtQuad (.l1 a false) (fun _ => 1) sn)
      (PDProb.init none none none) s)
    (hstop : (PDProb.ofData X y .sqrtQuad (.l1 a false) (fun _ => 1) sn).stopCrit s ≤ 0)
    (v : Fin p → ℝ) :
    Real.sqrt (∑ i, (y i - ∑ j, X i j * s.w j) ^ 2) + a * ∑ j, |s.w j|
      ≤ Real.sqrt (∑ i, (y i - ∑ j, X i j * v j) ^ 2) + a * ∑ j, |v j| := by
  set P := PDProb.ofData X y .sqrtQuad (.l1 a false) (fun _ => 1) sn with hP
  obtain ⟨hσ, hτ, hprox, hconv⟩ := hyps_ofData X y .sqrtQuad (.l1 a false) (fun _ => 1) sn hsn
    (fun _ => zero_le_one) (Or.inr (Or.inr (Or.inl ⟨a, false, rfl, ha⟩)))
  have hc := reach_consistent P _ s (cold_start_consistent P none) h
  have hobj : ∀ u : Fin p → ℝ, trueObj P u
      = Real.sqrt (∑ i, (y i - ∑ j, X i j * u j) ^ 2) + a * ∑ j, |u j| := by
    intro u
    unfold trueObj
    have h1 : P.df.value P.y (lin P u) = Real.sqrt (∑ i, (y i - ∑ j, X i j * u j) ^ 2) := by
      show (PDDatafit.sqrtQuad : PDDatafit ℝ).value y _ = _
      rw [value_sqrtQuad, norm2_eq]
      congr 1
      exact Finset.sum_congr rfl (fun i _ => by rw [sq]; rfl)
    have h2 : ∀ j, (pen P.pen (P.wts j) (u j)).getD 0 = a * |u j| := by
      intro j
      show (pen (.l1 a false) _ (u j)).getD 0 = _
      simp [pen, SepPen.positive]
    rw [h1, Finset.mul_sum]
    simp only [h2]
  have hfeas : Feasible P v := by
    intro j
    show (pen (.l1 a false) _ (v j)).isSome = true
    simp [pen, SepPen.positive]
  have := (stop_zero_is_saddle P s hc hσ hτ hprox hconv hstop).2 v hfeas
  rwa [hobj, hobj] at this

/-- a concrete run that converges: `X = [[1.]]`, `y = [0.5]`, `SqrtQuadratic()`, `L1(2.)`.  Two
    passes from the cold start reach `w = 0`, `z = z_bar = -1`, a fixed point with `stop_crit = 0`;
    every hypothesis of `fixed_point_is_saddle` holds there and `w = 0` minimises
    `|0.5 - w| + 2|w|` -/
example :
    let P := P11 (1 / 2) 2
    let s := P.pdcdStep (P.pdcdStep (PDProb.init none none none) 0) 0
    PDReach P (PDProb.init none none none) s ∧ s = mk11 0 (-1) (-1) ∧ P.stopCrit s = 0 ∧
      (∀ j, P.pdcdStep s j = s) ∧ Saddle P s.w s.z ∧
      ∀ v : Fin 1 → ℝ, |1 / 2 - s.w 0| + 2 * |s.w 0| ≤ |1 / 2 - v 0| + 2 * |v 0| := by
  intro P s
  have h0 : (PDProb.init none none none : PDState ℝ 1 1) = mk11 0 0 0 := rfl
  have h1 : P.pdcdStep (mk11 0 0 0) 0 = mk11 0 (-(1 / 2)) (-(1 / 2)) := by
    rw [P11_step]
    have e1 : ST ((0 : ℝ) - (2 * 0 - 0)) 2 false = 0 := by norm_num [ST]
    rw [e1]
    have e2 : clip (0 + 0 - 1 / 2) = -(1 / 2) := by norm_num [clip_eq]
    rw [e2]
  have h2 : P.pdcdStep (mk11 0 (-(1 / 2)) (-(1 / 2))) 0 = mk11 0 (-1) (-1) := by
    rw [P11_step]
    have e1 : ST ((0 : ℝ) - (2 * -(1 / 2) - -(1 / 2))) 2 false = 0 := by norm_num [ST]
    rw [e1]
    have e2 : clip (-(1 / 2) + 0 - 1 / 2) = -1 := by norm_num [clip_eq]
    rw [e2]
  have hs : s = mk11 0 (-1) (-1) := by
    show P.pdcdStep (P.pdcdStep (PDProb.init none none none) 0) 0 = _
    rw [h0, h1, h2]
  have hcrit : P.stopCrit s = 0 := by
    rw [hs, P11_stopCrit]
    have e1 : ST ((0 : ℝ) - -1) 2 false = 0 := by norm_num [ST]
    have e2 : clip (-1 + 0 - 1 / 2) = -1 := by norm_num [clip_eq]
    rw [e1, e2]; norm_num
  have hzb : s.zbar = s.z := by rw [hs]; rfl
  obtain ⟨hσ, hτ, hprox, hconv⟩ := hyps_ofData (fun (_ : Fin 1) (_ : Fin 1) => (1 : ℝ))
    (fun _ => 1 / 2) .sqrtQuad (.l1 2 false) (fun _ => 1) 1 one_pos (fun _ => zero_le_one)
    (Or.inr (Or.inr (Or.inl ⟨2, false, rfl, by norm_num⟩)))
  have hfix : ∀ j, P.pdcdStep s j = s := fixed_of_stopCrit_zero P s hzb hcrit.le
  have hsad : Saddle P s.w s.z :=
    fixed_point_is_saddle P s one_pos (by rw [hs]; exact P11_consistent _ _ _ _ _) hσ hτ hprox hconv
      hzb (fun j => by rw [hfix j]; exact ⟨rfl, rfl⟩)
  refine ⟨.step 0 (.step 0 .start), hs, hcrit, hfix, hsad, fun v => ?_⟩
  have hmin := saddle_is_minimiser P s.w s.z hsad v (fun j => by
    show (pen (.l1 2 false) _ (v j)).isSome = true
    simp [pen, SepPen.positive])
  have hobj : ∀ u : Fin 1 → ℝ, trueObj P u = |1 / 2 - u 0| + 2 * |u 0| := by
    intro u
    unfold trueObj
    have e1 : P.df.value P.y (lin P u) = |1 / 2 - u 0| := by
      show (PDDatafit.sqrtQuad : PDDatafit ℝ).value _ _ = _
      rw [value_sqrtQuad, norm2_one]
      simp [lin, P, P11, PDProb.ofData]
    rw [e1, Fin.sum_univ_one]
    show _ + (pen (.l1 2 false) _ (u 0)).getD 0 = _
    simp [pen, SepPen.positive]
  rwa [hobj, hobj] at hmin

end Skglm.PDCD
