import Skglm.Model.ProxNewton
import Skglm.Spec.Solver
import Skglm.Properties.C02
/-
  The backtracking line search of the prox-Newton solver: it keeps the model-fit buffer
  consistent, an accepted step strictly decreases the objective (convex datafit, any penalty),
  and the search returns either an accepted step `2^{-k}` or — when no step is accepted within
  the budget — the starting point (the `for … else:` branch undoes the last trial step), so the
  objective never goes up.
-/
namespace Skglm.PN
open Skglm Skglm.Spec Skglm.Proofs
variable {n p : Nat}

theorem CDState.ext' {s t : CDState ℝ n p} (hw : s.w = t.w) (hb : s.b = t.b) (hx : s.Xw = t.Xw) :
    s = t := by
  cases s; cases t; simp_all

theorem moveBy_zero (s : CDState ℝ n p) (d : PNDir ℝ n p) : CDProb.moveBy s d 0 = s := by
  apply CDState.ext' <;> simp [CDProb.moveBy]

theorem moveBy_moveBy (s : CDState ℝ n p) (d : PNDir ℝ n p) (a b : ℝ) :
    CDProb.moveBy (CDProb.moveBy s d a) d b = CDProb.moveBy s d (a + b) := by
  apply CDState.ext'
  · funext j; simp only [CDProb.moveBy, mat_eq]; ring
  · simp only [CDProb.moveBy]; ring
  · funext i; simp only [CDProb.moveBy, mat_eq]; ring

/-! ### consistency -/

/-- the direction's buffer is `X dw + db` -/
def DirConsistent (P : CDProb ℝ n p) (d : PNDir ℝ n p) : Prop :=
  ∀ i, d.Xd i = (∑ j, P.X i j * d.dw j) + d.db

theorem moveBy_consistent (P : CDProb ℝ n p) (s : CDState ℝ n p) (d : PNDir ℝ n p) (t : ℝ)
    (hs : Consistent P s) (hd : DirConsistent P d) : Consistent P (CDProb.moveBy s d t) := by
  intro i
  simp only [CDProb.moveBy, mat_eq]
  rw [hs i, hd i]
  have : ∀ j, P.X i j * (s.w j + t * d.dw j) = P.X i j * s.w j + t * (P.X i j * d.dw j) :=
    fun j => by ring
  simp only [this, Finset.sum_add_distrib, ← Finset.mul_sum]
  ring

theorem backtrackLoop_consistent (P : CDProb ℝ n p) (oldPen : Ext ℝ) (d : PNDir ℝ n p)
    (hd : DirConsistent P d) (fuel : Nat) (cur : CDState ℝ n p) (step prev : ℝ)
    (hs : Consistent P cur) : Consistent P (P.backtrackLoop oldPen d fuel cur step prev) := by
  induction fuel generalizing cur step prev with
  | zero => exact moveBy_consistent P cur d (-prev) hs hd
  | succ fuel ih =>
    unfold CDProb.backtrackLoop
    dsimp only
    have h' := moveBy_consistent P cur d (step - prev) hs hd
    split_ifs
    · exact h'
    · exact ih _ _ _ h'

/-- the line search keeps `Xw = X w + b`, whatever the budget and whatever the tests decide -/
theorem backtrack_consistent (fuel : Nat) (P : CDProb ℝ n p) (s0 : CDState ℝ n p)
    (d : PNDir ℝ n p) (hs : Consistent P s0) (hd : DirConsistent P d) :
    Consistent P (P.backtrack fuel s0 d) :=
  backtrackLoop_consistent P _ d hd fuel s0 1 0 hs

/-! ### an accepted step decreases the objective -/

theorem extSub_fin {a b : Ext ℝ} {c : ℝ} (h : CDProb.extSub a b = .fin c) :
    ∃ x y, a = .fin x ∧ b = .fin y ∧ c = x - y := by
  cases a <;> cases b <;> simp [CDProb.extSub] at h
  exact ⟨_, _, rfl, rfl, h.symm⟩

/-- convex datafit without linear term, any penalty: if the test value is finite and negative,
    the objective (as the solver computes it) is finite at both ends and decreases by at least
    that much.  This is `f(old) ≥ f(new) + ∇f(new)·(old − new)`. -/
theorem accepted_step_descends (P : CDProb ℝ n p) (s0 : CDState ℝ n p) (d : PNDir ℝ n p)
    (t v : ℝ) (hd : DirConsistent P d)
    (hsw : ∀ i, 0 ≤ P.sw i) (hN : 0 ≤ P.df.normaliser P.sw)
    (hdelta : ∀ δ, P.df = .huber δ → 0 < δ) (hgamma : P.df = .gamma → ∀ i, 0 ≤ P.y i)
    (hlin : P.df.lin = 0) (hdb : P.fitInt = false → d.db = 0)
    (htest : P.lineSearchTest s0 d t = .fin v) (hv : v < 0) :
    ∃ a b, P.objective (CDProb.moveBy s0 d t) = .fin a ∧ P.objective s0 = .fin b ∧
      a - b ≤ v ∧ a < b := by
  unfold CDProb.lineSearchTest CDProb.lineSearchTestAt at htest
  cases hsub : CDProb.extSub (P.pen.value P.wts (CDProb.moveBy s0 d t).w)
      (P.pen.value P.wts s0.w) with
  | inf => rw [hsub] at htest; simp at htest
  | fin pd =>
    rw [hsub] at htest
    obtain ⟨pn, po, hpn, hpo, hpd⟩ := extSub_fin hsub
    set new := CDProb.moveBy s0 d t with hnew
    set r := P.df.rawGrad P.sw P.y new.Xw with hr
    -- the number the test adds to the penalty difference
    have hval : v = pd + t * (∑ j, (∑ i, P.X i j * r i) * d.dw j)
        + t * d.db * ∑ i, r i := by
      dsimp only at htest
      cases hfi : P.fitInt with
      | true =>
        rw [hfi] at htest
        simp only [if_true, Ext.fin.injEq, CDProb.pnGrad, mat_eq, vsum_eq] at htest
        rw [← htest]
      | false =>
        rw [hfi] at htest
        simp only [Bool.false_eq_true, if_false, Ext.fin.injEq, CDProb.pnGrad, mat_eq,
          vsum_eq] at htest
        rw [← htest, hdb hfi]; ring
    -- convexity of the datafit between the two buffers
    have hconv := C02.value_convex_ineq P.df P.sw P.y new.Xw s0.Xw new.w s0.w hsw hN hdelta hgamma
    rw [hlin, zero_mul, add_zero] at hconv
    have hdiff : ∀ i, s0.Xw i - new.Xw i = -(t * ((∑ j, P.X i j * d.dw j) + d.db)) := by
      intro i
      simp only [hnew, CDProb.moveBy, mat_eq, hd i]; ring
    have hswap : ∑ i, r i * (s0.Xw i - new.Xw i)
        = -(t * (∑ j, (∑ i, P.X i j * r i) * d.dw j) + t * d.db * ∑ i, r i) := by
      simp only [hdiff, mul_neg, Finset.sum_neg_distrib]
      congr 1
      have : ∀ i, r i * (t * ((∑ j, P.X i j * d.dw j) + d.db))
          = t * (∑ j, P.X i j * r i * d.dw j) + t * d.db * r i := by
        intro i
        have e : (∑ j, P.X i j * r i * d.dw j) = r i * ∑ j, P.X i j * d.dw j := by
          rw [Finset.mul_sum]; exact Finset.sum_congr rfl (fun j _ => by ring)
        rw [e]; ring
      simp only [this, Finset.sum_add_distrib, ← Finset.mul_sum, Finset.sum_mul]
      congr 2
      rw [Finset.sum_comm]
    rw [hswap] at hconv
    refine ⟨P.df.value P.sw P.y new.Xw new.w + pn, P.df.value P.sw P.y s0.Xw s0.w + po, ?_, ?_,
      ?_, ?_⟩
    · simp only [CDProb.objective, hpn, Ext.add]
    · simp only [CDProb.objective, hpo, Ext.add]
    · linarith
    · linarith

/-- with a finite penalty value at the start, the `stop_crit < 0` decision is exactly
    "the test value is finite and negative" -/
theorem accept_iff_test_neg (P : CDProb ℝ n p) (s0 : CDState ℝ n p) (d : PNDir ℝ n p) (t po : ℝ)
    (hpo : P.pen.value P.wts s0.w = .fin po) :
    P.lineSearchAccept s0 d t = true ↔ ∃ v, P.lineSearchTest s0 d t = .fin v ∧ v < 0 := by
  unfold CDProb.lineSearchAccept CDProb.lineSearchAcceptAt CDProb.lineSearchTest
  rw [hpo]
  dsimp only
  cases h : P.lineSearchTestAt (Ext.fin po) (CDProb.moveBy s0 d t) d t with
  | inf => simp [Ext.lt]
  | fin x => simp [Ext.lt]

/-! ### what the search returns -/

theorem backtrackLoop_spec (P : CDProb ℝ n p) (s0 : CDState ℝ n p) (d : PNDir ℝ n p)
    (fuel : Nat) : ∀ (m : Nat) (cur : CDState ℝ n p) (prev : ℝ),
    cur = CDProb.moveBy s0 d prev →
    (∃ k, m ≤ k ∧ k < m + fuel ∧
        P.backtrackLoop (P.pen.value P.wts s0.w) d fuel cur (1 / 2 ^ m) prev
          = CDProb.moveBy s0 d (1 / 2 ^ k) ∧
        P.lineSearchAccept s0 d (1 / 2 ^ k) = true ∧
        ∀ k', m ≤ k' → k' < k → P.lineSearchAccept s0 d (1 / 2 ^ k') = false) ∨
    ((∀ k', m ≤ k' → k' < m + fuel → P.lineSearchAccept s0 d (1 / 2 ^ k') = false) ∧
      P.backtrackLoop (P.pen.value P.wts s0.w) d fuel cur (1 / 2 ^ m) prev = s0) := by
  induction fuel with
  | zero =>
    intro m cur prev hcur
    right
    refine ⟨fun k' h1 h2 => absurd h2 (by omega), ?_⟩
    -- the `else:` branch: `s0 + prev d - prev d = s0`
    unfold CDProb.backtrackLoop
    rw [hcur, moveBy_moveBy, add_neg_cancel, moveBy_zero]
  | succ fuel ih =>
    intro m cur prev hcur
    have hcur' : CDProb.moveBy cur d (1 / 2 ^ m - prev) = CDProb.moveBy s0 d (1 / 2 ^ m) := by
      rw [hcur, moveBy_moveBy]; congr 1; ring
    unfold CDProb.backtrackLoop
    dsimp only
    rw [hcur']
    by_cases hacc : P.lineSearchAcceptAt (P.pen.value P.wts s0.w)
        (CDProb.moveBy s0 d (1 / 2 ^ m)) d (1 / 2 ^ m) = true
    · rw [if_pos hacc]
      left
      exact ⟨m, le_refl _, by omega, rfl, hacc, fun k' h1 h2 => absurd h2 (by omega)⟩
    · rw [if_neg hacc]
      have hstep : (1 : ℝ) / 2 ^ m / nat 2 = 1 / 2 ^ (m + 1) := by
        have h2 : (nat 2 : ℝ) = 2 := by rw [nat_eq]; norm_num
        rw [h2, pow_succ, div_div]
      rw [hstep]
      have hm : P.lineSearchAccept s0 d (1 / 2 ^ m) = false := by
        simpa [CDProb.lineSearchAccept] using hacc
      rcases ih (m + 1) (CDProb.moveBy s0 d (1 / 2 ^ m)) (1 / 2 ^ m) rfl with
        ⟨k, hk1, hk2, hr, hk, hbefore⟩ | ⟨hall, hr⟩
      · left
        refine ⟨k, by omega, by omega, hr, hk, fun k' h1 h2 => ?_⟩
        rcases Nat.eq_or_lt_of_le h1 with h | h
        · rw [← h]; exact hm
        · exact hbefore k' (by omega) h2
      · right
        refine ⟨fun k' h1 h2 => ?_, hr⟩
        rcases Nat.eq_or_lt_of_le h1 with h | h
        · rw [← h]; exact hm
        · exact hall k' (by omega) (by omega)

/-- the line search with budget `fuel + 1` returns either the first accepted step `2^{-k}`
    (`k ≤ fuel`), or — no step accepted — the starting point (the last trial step `2^{-fuel}` is
    undone by the `for … else:` branch) -/
theorem backtrack_returns (fuel : Nat) (P : CDProb ℝ n p) (s0 : CDState ℝ n p) (d : PNDir ℝ n p) :
    (∃ k, k ≤ fuel ∧ P.backtrack (fuel + 1) s0 d = CDProb.moveBy s0 d (1 / 2 ^ k) ∧
        P.lineSearchAccept s0 d (1 / 2 ^ k) = true ∧
        ∀ k', k' < k → P.lineSearchAccept s0 d (1 / 2 ^ k') = false) ∨
    ((∀ k', k' ≤ fuel → P.lineSearchAccept s0 d (1 / 2 ^ k') = false) ∧
      P.backtrack (fuel + 1) s0 d = s0) := by
  have h := backtrackLoop_spec P s0 d (fuel + 1) 0 s0 0 (moveBy_zero s0 d).symm
  simp only [pow_zero, div_one, zero_add, Nat.zero_le, true_implies] at h
  unfold CDProb.backtrack
  rcases h with ⟨k, _, hk2, hr, hk, hb⟩ | ⟨hall, hr⟩
  · left
    exact ⟨k, by omega, hr, hk, fun k' h' => hb k' h'⟩
  · right
    exact ⟨fun k' h' => hall k' (by omega), hr⟩

/-- with an empty budget the search does not move -/
theorem backtrack_zero (P : CDProb ℝ n p) (s0 : CDState ℝ n p) (d : PNDir ℝ n p) :
    P.backtrack 0 s0 d = s0 := by
  unfold CDProb.backtrack CDProb.backtrackLoop
  rw [neg_zero, moveBy_zero]

/-- **the line search descends or stays**: with a finite penalty value at the start and a convex
    datafit, the point returned either has a strictly smaller objective (an accepted step
    `2^{-k}`, `k ≤ fuel`), or *every* test failed and the search is back at its starting point
    (the `for … else:` branch undoes the last trial step `2^{-fuel}`). -/
theorem backtrack_descends_or_stays (fuel : Nat) (P : CDProb ℝ n p) (s0 : CDState ℝ n p)
    (d : PNDir ℝ n p) (po : ℝ) (hpo : P.pen.value P.wts s0.w = .fin po)
    (hd : DirConsistent P d)
    (hsw : ∀ i, 0 ≤ P.sw i) (hN : 0 ≤ P.df.normaliser P.sw)
    (hdelta : ∀ δ, P.df = .huber δ → 0 < δ) (hgamma : P.df = .gamma → ∀ i, 0 ≤ P.y i)
    (hlin : P.df.lin = 0) (hdb : P.fitInt = false → d.db = 0) :
    (∃ k a b, k ≤ fuel ∧ P.backtrack (fuel + 1) s0 d = CDProb.moveBy s0 d (1 / 2 ^ k) ∧
        P.objective (P.backtrack (fuel + 1) s0 d) = .fin a ∧ P.objective s0 = .fin b ∧ a < b) ∨
    ((∀ k', k' ≤ fuel → P.lineSearchAccept s0 d (1 / 2 ^ k') = false) ∧
      P.backtrack (fuel + 1) s0 d = s0) := by
  rcases backtrack_returns fuel P s0 d with ⟨k, hk, hr, hacc, _⟩ | h
  · left
    obtain ⟨v, hv, hneg⟩ := (accept_iff_test_neg P s0 d _ po hpo).1 hacc
    obtain ⟨a, b, ha, hb, _, hab⟩ := accepted_step_descends P s0 d _ v hd hsw hN hdelta hgamma
      hlin hdb hv hneg
    exact ⟨k, a, b, hk, hr, by rw [hr]; exact ha, hb, hab⟩
  · right; exact h

/-- **the line search never increases the objective** (finite penalty value at the start, convex
    datafit, consistent direction), whatever the budget and whatever the tests decide -/
theorem backtrack_never_ascends (fuel : Nat) (P : CDProb ℝ n p) (s0 : CDState ℝ n p)
    (d : PNDir ℝ n p) (po : ℝ) (hpo : P.pen.value P.wts s0.w = .fin po)
    (hd : DirConsistent P d)
    (hsw : ∀ i, 0 ≤ P.sw i) (hN : 0 ≤ P.df.normaliser P.sw)
    (hdelta : ∀ δ, P.df = .huber δ → 0 < δ) (hgamma : P.df = .gamma → ∀ i, 0 ≤ P.y i)
    (hlin : P.df.lin = 0) (hdb : P.fitInt = false → d.db = 0) :
    Ext.le (P.objective (P.backtrack (fuel + 1) s0 d)) (P.objective s0) = true := by
  rcases backtrack_descends_or_stays fuel P s0 d po hpo hd hsw hN hdelta hgamma hlin hdb with
    ⟨k, a, b, _, _, ha, hb, hab⟩ | ⟨_, hr⟩
  · rw [ha, hb]
    simp only [Ext.le, decide_eq_true_eq]
    exact le_of_lt hab
  · rw [hr]; cases P.objective s0 <;> simp [Ext.le]

/-! ### non-vacuity -/

/-- `½ (w − y)² + a |w|` with one sample and one feature, started at `w = 0`, direction `+1` -/
noncomputable def exP (y a : ℝ) : CDProb ℝ 1 1 :=
  { X := fun _ _ => 1, y := fun _ => y, sw := fun _ => 1, df := .quadratic,
    pen := .l1 a false, wts := fun _ => 1, fitInt := false }
def exS : CDState ℝ 1 1 := { w := fun _ => 0, b := 0, Xw := fun _ => 0 }
def exD : PNDir ℝ 1 1 := { dw := fun _ => 1, db := 0, Xd := fun _ => 1 }

/-- the hypotheses of `backtrack_descends_or_stays` / `backtrack_never_ascends` hold together -/
example (y a : ℝ) : (exP y a).pen.value (exP y a).wts exS.w = .fin 0 ∧ DirConsistent (exP y a) exD ∧
    (∀ i, 0 ≤ (exP y a).sw i) ∧ 0 ≤ (exP y a).df.normaliser (exP y a).sw ∧
    (∀ δ, (exP y a).df = .huber δ → 0 < δ) ∧ ((exP y a).df = .gamma → ∀ i, 0 ≤ (exP y a).y i) ∧
    (exP y a).df.lin = 0 ∧ ((exP y a).fitInt = false → exD.db = 0) := by
  refine ⟨?_, ?_, ?_, ?_, ?_, ?_, ?_, ?_⟩ <;>
    simp [exP, exS, exD, DirConsistent, SepPen.value, esum, SepPen.pen1, Ext.add, sabs_eq,
      Fin.foldl_succ, Fin.foldl_zero, SepPen.positive, DF.normaliser, DF.lin]

theorem ex_accept_iff (y a t : ℝ) (ht : 0 < t) :
    (exP y a).lineSearchAccept exS exD t = true ↔ a + t < y := by
  simp [exP, exS, exD, CDProb.lineSearchAccept, CDProb.lineSearchAcceptAt, CDProb.lineSearchTestAt,
    CDProb.moveBy, CDProb.extSub, CDProb.pnGrad, SepPen.value, esum, SepPen.pen1, DF.rawGrad,
    DF.dloss1, DF.normaliser, vsum_eq, Ext.add, Ext.lt, sabs_eq, Fin.foldl_succ, Fin.foldl_zero,
    SepPen.positive, abs_of_pos ht]
  constructor <;> intro h <;> nlinarith

/-- success branch: `y = 2`, `a = 1/2`: the full step is accepted -/
example : (exP 2 (1 / 2)).backtrack 20 exS exD = CDProb.moveBy exS exD 1 := by
  rcases backtrack_returns 19 (exP 2 (1 / 2)) exS exD with ⟨k, _, hr, _, hb⟩ | ⟨hall, _⟩
  · rcases Nat.eq_zero_or_pos k with rfl | hk
    · simpa using hr
    · have := hb 0 hk
      rw [pow_zero, div_one, Bool.eq_false_iff] at this
      exact absurd ((ex_accept_iff 2 (1 / 2) 1 one_pos).2 (by norm_num)) this
  · have := hall 0 (by omega)
    rw [pow_zero, div_one, Bool.eq_false_iff] at this
    exact absurd ((ex_accept_iff 2 (1 / 2) 1 one_pos).2 (by norm_num)) this

/-- failure branch: `y = 0`, `a = 1` (`+1` is an ascent direction): every test fails and the
    search is back at the start -/
example : (∀ k : Nat, (exP 0 1).lineSearchAccept exS exD (1 / 2 ^ k) = false) ∧
    (exP 0 1).backtrack 20 exS exD = exS := by
  have hall : ∀ k : Nat, (exP 0 1).lineSearchAccept exS exD (1 / 2 ^ k) = false := by
    intro k
    have ht : (0 : ℝ) < 1 / 2 ^ k := by positivity
    rw [Bool.eq_false_iff, Ne, ex_accept_iff 0 1 _ ht]
    linarith
  refine ⟨hall, ?_⟩
  rcases backtrack_returns 19 (exP 0 1) exS exD with ⟨k, _, _, hacc, _⟩ | ⟨_, h⟩
  · rw [hall k] at hacc; cases hacc
  · exact h
end Skglm.PN
