import Skglm.Spec.Solver
import Skglm.Proofs.Datafits
import Skglm.Proofs.Subdiff
/-
  C02 — a converged convex fit is within a tolerance-proportional margin of *any* other point
  (hence of whatever a reference implementation returns): if `(w, b)` satisfies the first-order
  certificate within `ε` for a problem with a convex datafit and a convex penalty, then for every
  feasible `(z, c)`

      objective(w, b) − objective(z, c) ≤ ε · (‖w − z‖₁ + |b − c|).
-/
namespace Skglm.C02
open Skglm Skglm.Spec Skglm.Proofs Skglm.Proofs.SD
variable {n p : Nat}

/-! ### 1. the per-sample losses are convex: tangent inequality -/

/-- a differentiable function with a monotone derivative lies above its tangents -/
theorem tangent_le_of_mono_deriv {φ φ' : ℝ → ℝ} (h1 : ∀ t, HasDerivAt φ (φ' t) t)
    (hmono : Monotone φ') (u v : ℝ) : φ u + φ' u * (v - u) ≤ φ v := by
  let G : ℝ → ℝ := fun s => φ s - φ u - φ' u * (s - u)
  have hG : ∀ s, HasDerivAt G (φ' s - φ' u) s := by
    intro s
    have b : HasDerivAt (fun s : ℝ => φ' u * (s - u)) (φ' u) s := by
      simpa using ((hasDerivAt_id' s).sub_const u).const_mul (φ' u)
    exact ((h1 s).sub_const (φ u)).sub b
  have hGd : Differentiable ℝ G := fun s => (hG s).differentiableAt
  have hG0 : G u = 0 := by simp [G]
  have goal : 0 ≤ G v := by
    rcases le_total u v with hh | hh
    · have hm : MonotoneOn G (Set.Ici u) :=
        monotoneOn_of_deriv_nonneg (convex_Ici u) hGd.continuous.continuousOn
          hGd.differentiableOn (fun x hx => by
            rw [interior_Ici] at hx
            rw [(hG x).deriv, sub_nonneg]
            exact hmono (le_of_lt hx))
      have := hm (Set.mem_Ici.2 (le_refl u)) (Set.mem_Ici.2 hh) hh
      rwa [hG0] at this
    · have hm : AntitoneOn G (Set.Iic u) :=
        antitoneOn_of_deriv_nonpos (convex_Iic u) hGd.continuous.continuousOn
          hGd.differentiableOn (fun x hx => by
            rw [interior_Iic] at hx
            rw [(hG x).deriv, sub_nonpos]
            exact hmono (le_of_lt hx))
      have := hm (Set.mem_Iic.2 hh) (Set.mem_Iic.2 (le_refl u)) hh
      rwa [hG0] at this
  simp only [G] at goal
  linarith

/-- the derivative of each convex per-sample loss is monotone in the linear predictor -/
theorem dloss1_mono (d : DF ℝ) (y : ℝ) (hd : ∀ δ, d ≠ .huber δ) (hgamma : d = .gamma → 0 ≤ y) :
    Monotone (fun t => d.dloss1 y t) := by
  intro u u' huu'
  cases d with
  | quadratic => simp only [DF.dloss1]; linarith
  | wquadratic => simp only [DF.dloss1]; linarith
  | svc => simp only [DF.dloss1]; exact huu'
  | huber δ => exact absurd rfl (hd δ)
  | poisson =>
    simp only [DF.dloss1, scalar_exp_eq]
    have := Real.exp_le_exp.2 huu'
    linarith
  | gamma =>
    have hy := hgamma rfl
    simp only [DF.dloss1, scalar_exp_eq]
    have := Real.exp_le_exp.2 (neg_le_neg huu')
    nlinarith
  | logistic =>
    simp only [DF.dloss1, scalar_exp_eq]
    have hE : 0 < Real.exp (y * u) := Real.exp_pos _
    have hE' : 0 < Real.exp (y * u') := Real.exp_pos _
    rcases le_total 0 y with hy | hy
    · have h1 : Real.exp (y * u) ≤ Real.exp (y * u') :=
        Real.exp_le_exp.2 (mul_le_mul_of_nonneg_left huu' hy)
      have h2 : y / (1 + Real.exp (y * u')) ≤ y / (1 + Real.exp (y * u)) :=
        div_le_div_of_nonneg_left hy (by positivity) (by linarith)
      rw [neg_div, neg_div]
      linarith
    · have h1 : Real.exp (y * u') ≤ Real.exp (y * u) :=
        Real.exp_le_exp.2 (mul_le_mul_of_nonpos_left huu' hy)
      exact div_le_div_of_nonneg_left (by linarith) (by positivity) (by linarith)

/-- **tangent inequality** for every convex per-sample loss (Huber: `0 < δ`; Gamma: `0 ≤ y`) -/
theorem loss1_convex_ineq (d : DF ℝ) (y u v : ℝ) (hdelta : ∀ δ, d = .huber δ → 0 < δ)
    (hgamma : d = .gamma → 0 ≤ y) :
    d.loss1 y u + d.dloss1 y u * (v - u) ≤ d.loss1 y v := by
  by_cases hh : ∃ δ, d = .huber δ
  · obtain ⟨δ, rfl⟩ := hh
    have := (huber_sandwich δ y u v (hdelta δ rfl)).1
    linarith
  · have hd : ∀ δ, d ≠ .huber δ := fun δ hδ => hh ⟨δ, hδ⟩
    exact tangent_le_of_mono_deriv (φ := fun t => d.loss1 y t) (φ' := fun t => d.dloss1 y t)
      (fun t => dloss1_hasDerivAt_aux d y t hdelta) (dloss1_mono d y hd hgamma) u v

/-! ### 2. lift to `value` -/

/-- `value` lies above its linearisation in the linear predictors and the coefficients -/
theorem value_convex_ineq (d : DF ℝ) (sw y u u' : Fin n → ℝ) (w w' : Fin p → ℝ)
    (hsw : ∀ i, 0 ≤ sw i) (hN : 0 ≤ d.normaliser sw)
    (hdelta : ∀ δ, d = .huber δ → 0 < δ) (hgamma : d = .gamma → ∀ i, 0 ≤ y i) :
    d.value sw y u w + ∑ i, d.rawGrad sw y u i * (u' i - u i)
        + d.lin * ((∑ j, w' j) - ∑ j, w j)
      ≤ d.value sw y u' w' := by
  have hi : ∀ i, sw i * d.loss1 (y i) (u i) + sw i * d.dloss1 (y i) (u i) * (u' i - u i)
      ≤ sw i * d.loss1 (y i) (u' i) := by
    intro i
    have := mul_le_mul_of_nonneg_left
      (loss1_convex_ineq d (y i) (u i) (u' i) hdelta (fun h => hgamma h i)) (hsw i)
    linarith
  have hsum := Finset.sum_le_sum (fun i (_ : i ∈ Finset.univ) => hi i)
  rw [Finset.sum_add_distrib] at hsum
  have hdiv := div_le_div_of_nonneg_right hsum hN
  rw [add_div] at hdiv
  have e : (∑ i, sw i * d.dloss1 (y i) (u i) * (u' i - u i)) / d.normaliser sw
      = ∑ i, d.rawGrad sw y u i * (u' i - u i) := by
    rw [Finset.sum_div]
    exact Finset.sum_congr rfl (fun i _ => by simp only [DF.rawGrad]; ring)
  rw [e] at hdiv
  simp only [value_eq]
  linarith

/-! ### 3. convex penalties: a regular sub-gradient is a global one -/

/-- convexity of an extended-valued function of one variable, along segments between two points
    of its domain -/
def ConvexExt (φ : ℝ → Option ℝ) : Prop :=
  ∀ w z pw pz, φ w = some pw → φ z = some pz → ∀ t, 0 < t → t ≤ 1 →
    ∃ v, φ (w + t * (z - w)) = some v ∧ v ≤ pw + t * (pz - pw)

/-- for a convex function, the local (Fréchet) sub-gradient inequality is global -/
theorem regSubgrad_global {φ : ℝ → Option ℝ} (hφ : ConvexExt φ) {w z g pw pz : ℝ}
    (hg : IsRegSubgrad φ w g) (hw : φ w = some pw) (hz : φ z = some pz) :
    pw + g * (z - w) ≤ pz := by
  obtain ⟨fw, hfw, H⟩ := hg
  rw [hw] at hfw
  obtain rfl := Option.some.inj hfw
  have hD : 0 ≤ |z - w| := abs_nonneg _
  apply le_of_forall_pos_le_add
  intro ε' hε'
  obtain ⟨δ, hδ, H'⟩ := H (ε' / (|z - w| + 1)) (by positivity)
  obtain ⟨t, ht⟩ : ∃ t, t = min 1 (δ / (2 * (|z - w| + 1))) := ⟨_, rfl⟩
  have ht0 : 0 < t := by rw [ht]; exact lt_min one_pos (by positivity)
  have ht1 : t ≤ 1 := by rw [ht]; exact min_le_left _ _
  have ht2 : t * (2 * (|z - w| + 1)) ≤ δ := by
    rw [← le_div_iff₀ (by positivity)]; rw [ht]; exact min_le_right _ _
  have htD : 0 ≤ t * |z - w| := mul_nonneg ht0.le hD
  obtain ⟨v, hv, hvle⟩ := hφ w z pw pz hw hz t ht0 ht1
  have hdist : |w + t * (z - w) - w| = t * |z - w| := by
    rw [add_sub_cancel_left, abs_mul, abs_of_pos ht0]
  have h1 := H' (w + t * (z - w)) (by rw [hdist]; linarith)
  rw [hv, hdist, add_sub_cancel_left] at h1
  have hεD : ε' / (|z - w| + 1) * |z - w| ≤ ε' := by
    rw [div_mul_eq_mul_div, div_le_iff₀ (by positivity)]
    nlinarith
  -- divide `t·(…) ≤ t·(…)` by `t`
  have h2 : t * (pw + g * (z - w)) ≤ t * (pz + ε') := by
    have : ε' / (|z - w| + 1) * (t * |z - w|) ≤ t * ε' := by
      calc ε' / (|z - w| + 1) * (t * |z - w|)
          = t * (ε' / (|z - w| + 1) * |z - w|) := by ring
        _ ≤ t * ε' := mul_le_mul_of_nonneg_left hεD ht0.le
    nlinarith
  exact le_of_mul_le_mul_left h2 ht0

theorem abs_convex (w z t : ℝ) (ht0 : 0 ≤ t) (ht1 : t ≤ 1) :
    |w + t * (z - w)| ≤ |w| + t * (|z| - |w|) := by
  have e : w + t * (z - w) = (1 - t) * w + t * z := by ring
  rw [e]
  calc |(1 - t) * w + t * z| ≤ |(1 - t) * w| + |t * z| := abs_add_le _ _
    _ = (1 - t) * |w| + t * |z| := by
        rw [abs_mul, abs_mul, abs_of_nonneg ht0, abs_of_nonneg (by linarith : 0 ≤ 1 - t)]
    _ = |w| + t * (|z| - |w|) := by ring

theorem sq_convex (w z t : ℝ) (ht0 : 0 ≤ t) (ht1 : t ≤ 1) :
    (w + t * (z - w)) ^ 2 ≤ w ^ 2 + t * (z ^ 2 - w ^ 2) := by
  nlinarith [mul_nonneg (mul_nonneg ht0 (by linarith : 0 ≤ 1 - t)) (sq_nonneg (z - w))]

/-- `withPos pos f` is convex when `f` is -/
theorem convexExt_withPos (pos : Bool) (f : ℝ → ℝ)
    (hf : ∀ w z t, 0 < t → t ≤ 1 → f (w + t * (z - w)) ≤ f w + t * (f z - f w)) :
    ConvexExt (withPos pos f) := by
  intro w z pw pz hw hz t ht0 ht1
  have dom : ∀ x px, withPos pos f x = some px → (pos = false ∨ 0 ≤ x) ∧ px = f x := by
    intro x px hx
    unfold withPos at hx
    split_ifs at hx with hc
    refine ⟨?_, (Option.some.inj hx).symm⟩
    cases pos with
    | false => exact Or.inl rfl
    | true => exact Or.inr (by by_contra h; exact hc ⟨rfl, not_le.mp h⟩)
  obtain ⟨dw, rfl⟩ := dom w pw hw
  obtain ⟨dz, rfl⟩ := dom z pz hz
  refine ⟨f (w + t * (z - w)), withPos_some ?_, hf w z t ht0 ht1⟩
  rcases dw with h | h
  · exact Or.inl h
  · rcases dz with h' | h'
    · exact Or.inl h'
    · right
      have : w + t * (z - w) = (1 - t) * w + t * z := by ring
      rw [this]
      exact add_nonneg (mul_nonneg (by linarith) h) (mul_nonneg ht0.le h')

/-- parameters for which the documented penalty of a coordinate is convex -/
def ConvexPen (p : SepPen ℝ) (wt : ℝ) : Prop :=
  match p with
  | .l1 a _ => 0 ≤ a
  | .wl1 a _ => 0 ≤ a * wt
  | .l1l2 a r _ => 0 ≤ a ∧ 0 ≤ r ∧ r ≤ 1
  | .box _ => True
  | .pos => True
  | _ => False

theorem pen_convexExt (p : SepPen ℝ) (wt : ℝ) (h : ConvexPen p wt) : ConvexExt (pen p wt) := by
  cases p with
  | l1 a pos =>
    have ha : 0 ≤ a := h
    rw [SD.pen_l1]
    refine convexExt_withPos pos _ (fun w z t ht0 ht1 => ?_)
    have := mul_le_mul_of_nonneg_left (abs_convex w z t ht0.le ht1) ha
    linarith
  | wl1 a pos =>
    have ha : 0 ≤ a * wt := h
    rw [SD.pen_wl1]
    refine convexExt_withPos pos _ (fun w z t ht0 ht1 => ?_)
    have := mul_le_mul_of_nonneg_left (abs_convex w z t ht0.le ht1) ha
    linarith
  | l1l2 a r pos =>
    obtain ⟨ha, hr0, hr1⟩ : 0 ≤ a ∧ 0 ≤ r ∧ r ≤ 1 := h
    rw [SD.pen_l1l2]
    refine convexExt_withPos pos _ (fun w z t ht0 ht1 => ?_)
    have h1 := mul_le_mul_of_nonneg_left (abs_convex w z t ht0.le ht1) (mul_nonneg ha hr0)
    have h2 := mul_le_mul_of_nonneg_left (sq_convex w z t ht0.le ht1)
      (mul_nonneg ha (by linarith : 0 ≤ 1 - r))
    nlinarith
  | pos =>
    rw [SD.pen_pos]
    exact convexExt_withPos true _ (fun w z t _ _ => by simp)
  | box a =>
    intro w z pw pz hw hz t ht0 ht1
    rw [SD.pen_box] at hw hz ⊢
    split_ifs at hw with hcw
    split_ifs at hz with hcz
    obtain rfl := Option.some.inj hw
    obtain rfl := Option.some.inj hz
    refine ⟨0, ?_, by simp⟩
    have e : w + t * (z - w) = (1 - t) * w + t * z := by ring
    rw [if_pos]
    rw [e]
    constructor
    · exact add_nonneg (mul_nonneg (by linarith) hcw.1) (mul_nonneg ht0.le hcz.1)
    · nlinarith [mul_le_mul_of_nonneg_left hcw.2 (by linarith : 0 ≤ 1 - t),
        mul_le_mul_of_nonneg_left hcz.2 ht0.le]
  | mcp a g pos => exact absurd h (by simp [ConvexPen])
  | wmcp a g pos => exact absurd h (by simp [ConvexPen])
  | scad a g => exact absurd h (by simp [ConvexPen])
  | l05 a => exact absurd h (by simp [ConvexPen])
  | l23 a => exact absurd h (by simp [ConvexPen])
  | logsum a e => exact absurd h (by simp [ConvexPen])

/-- for the convex penalties (ℓ1, weighted ℓ1, elastic net, box and positivity indicators) a
    regular sub-gradient satisfies the global sub-gradient inequality -/
theorem pen_convex_subgrad_ineq (p : SepPen ℝ) (wt w z g pw pz : ℝ) (h : ConvexPen p wt)
    (hg : IsRegSubgrad (pen p wt) w g) (hz : pen p wt z = some pz) (hw : pen p wt w = some pw) :
    pw + g * (z - w) ≤ pz :=
  regSubgrad_global (pen_convexExt p wt h) hg hw hz

/-! ### 4. the duality-gap-like bound -/

/-- the gradient of the datafit in coordinate `j`, from the raw gradient -/
theorem gradScalar_eq (P : CDProb ℝ n p) (u : Fin n → ℝ) (j : Fin p) :
    P.df.gradScalar P.X P.sw P.y u j = (∑ i, P.X i j * P.df.rawGrad P.sw P.y u i) + P.df.lin := by
  simp only [DF.gradScalar, vsum_eq]

theorem getD_of_feasible {P : CDProb ℝ n p} {w : Fin p → ℝ} (hf : Feasible P w) (j : Fin p) :
    pen P.pen (P.wts j) (w j) = some ((pen P.pen (P.wts j) (w j)).getD 0) := by
  have := hf j
  cases h : pen P.pen (P.wts j) (w j) with
  | none => rw [h] at this; simp at this
  | some x => rfl

/-- **C02**: a point certified within `ε` for a convex problem is within
    `ε · (‖w − z‖₁ + |b − c|)` of *every* feasible point in objective value.
    Hypotheses: non-negative sample weights, non-negative normaliser, `0 < δ` for Huber,
    `0 ≤ y` for Gamma, convex penalty parameters; without an intercept both points have the same
    (zero) intercept. -/
theorem gap_le_of_certificate (P : CDProb ℝ n p) (w z : Fin p → ℝ) (b c ε : ℝ)
    (hsw : ∀ i, 0 ≤ P.sw i) (hN : 0 ≤ P.df.normaliser P.sw)
    (hdelta : ∀ δ, P.df = .huber δ → 0 < δ) (hgamma : P.df = .gamma → ∀ i, 0 ≤ P.y i)
    (hpen : ∀ j, ConvexPen P.pen (P.wts j))
    (hcert : Certificate P w b ε) (hfw : Feasible P w) (hfz : Feasible P z)
    (hbc : P.fitInt = false → b = c) :
    trueObj P w b - trueObj P z c
      ≤ ε * ((∑ j, |w j - z j|) + (if P.fitInt then |b - c| else 0)) := by
  obtain ⟨hcoord, hint⟩ := hcert
  choose g hgsub hgle using hcoord
  -- datafit part
  have hval := value_convex_ineq P.df P.sw P.y (linPred P w b) (linPred P z c) w z hsw hN
    hdelta hgamma
  have hlin : ∀ i, linPred P z c i - linPred P w b i = (∑ j, P.X i j * (z j - w j)) + (c - b) := by
    intro i
    simp only [linPred]
    have : ∀ j, P.X i j * (z j - w j) = P.X i j * z j - P.X i j * w j := fun j => by ring
    simp only [this, Finset.sum_sub_distrib]
    ring
  set r := P.df.rawGrad P.sw P.y (linPred P w b) with hr
  have hswap : ∑ i, r i * (linPred P z c i - linPred P w b i)
      = (∑ j, (∑ i, P.X i j * r i) * (z j - w j)) + (∑ i, r i) * (c - b) := by
    simp only [hlin, mul_add, Finset.sum_add_distrib, ← Finset.sum_mul]
    congr 1
    simp only [Finset.mul_sum, Finset.sum_mul]
    rw [Finset.sum_comm]
    exact Finset.sum_congr rfl (fun j _ => Finset.sum_congr rfl (fun i _ => by ring))
  have hG : ∀ j, P.df.gradScalar P.X P.sw P.y (linPred P w b) j
      = (∑ i, P.X i j * r i) + P.df.lin := fun j => gradScalar_eq P _ j
  -- penalty part
  have hpj : ∀ j, (pen P.pen (P.wts j) (w j)).getD 0 + g j * (z j - w j)
      ≤ (pen P.pen (P.wts j) (z j)).getD 0 := fun j =>
    pen_convex_subgrad_ineq P.pen (P.wts j) (w j) (z j) (g j) _ _ (hpen j) (hgsub j)
      (getD_of_feasible hfz j) (getD_of_feasible hfw j)
  have hpsum := Finset.sum_le_sum (fun j (_ : j ∈ Finset.univ) => hpj j)
  rw [Finset.sum_add_distrib] at hpsum
  -- per-coordinate bound `(G_j + g_j)(z_j - w_j) ≥ -ε |w_j - z_j|`
  have hcoordb : ∀ j, -(ε * |w j - z j|)
      ≤ (P.df.gradScalar P.X P.sw P.y (linPred P w b) j + g j) * (z j - w j) := by
    intro j
    have h1 : |P.df.gradScalar P.X P.sw P.y (linPred P w b) j + g j| ≤ ε := by
      have := hgle j
      rwa [show -(P.df.gradScalar P.X P.sw P.y (linPred P w b) j) - g j
        = -(P.df.gradScalar P.X P.sw P.y (linPred P w b) j + g j) by ring, abs_neg] at this
    have h2 : |(P.df.gradScalar P.X P.sw P.y (linPred P w b) j + g j) * (z j - w j)|
        ≤ ε * |w j - z j| := by
      rw [abs_mul, abs_sub_comm (z j) (w j)]
      exact mul_le_mul_of_nonneg_right h1 (abs_nonneg _)
    exact (abs_le.1 h2).1
  have hcsum := Finset.sum_le_sum (fun j (_ : j ∈ Finset.univ) => hcoordb j)
  rw [Finset.sum_neg_distrib, ← Finset.mul_sum] at hcsum
  have hexp : ∑ j, (P.df.gradScalar P.X P.sw P.y (linPred P w b) j + g j) * (z j - w j)
      = (∑ j, (∑ i, P.X i j * r i) * (z j - w j)) + P.df.lin * ((∑ j, z j) - ∑ j, w j)
        + ∑ j, g j * (z j - w j) := by
    simp only [hG, add_mul, Finset.sum_add_distrib, ← Finset.mul_sum, Finset.sum_sub_distrib]
  -- intercept part
  have hintb : -(ε * (if P.fitInt then |b - c| else 0)) ≤ (∑ i, r i) * (c - b) := by
    cases hfi : P.fitInt with
    | false =>
      rw [hbc hfi]; simp
    | true =>
      simp only [if_true]
      have h1 := hint hfi
      have h2 : |(∑ i, r i) * (c - b)| ≤ ε * |b - c| := by
        rw [abs_mul, abs_sub_comm c b]
        exact mul_le_mul_of_nonneg_right h1 (abs_nonneg _)
      exact (abs_le.1 h2).1
  unfold trueObj
  rw [mul_add]
  linarith

/-! ### 5. two certified points -/

/-- two points certified within `ε` have objective values within `ε · (‖w − z‖₁ + |b − c|)` of each
    other -/
theorem two_certified_points_close (P : CDProb ℝ n p) (w z : Fin p → ℝ) (b c ε : ℝ)
    (hsw : ∀ i, 0 ≤ P.sw i) (hN : 0 ≤ P.df.normaliser P.sw)
    (hdelta : ∀ δ, P.df = .huber δ → 0 < δ) (hgamma : P.df = .gamma → ∀ i, 0 ≤ P.y i)
    (hpen : ∀ j, ConvexPen P.pen (P.wts j))
    (hcw : Certificate P w b ε) (hcz : Certificate P z c ε)
    (hfw : Feasible P w) (hfz : Feasible P z) (hbc : P.fitInt = false → b = c) :
    |trueObj P w b - trueObj P z c|
      ≤ ε * ((∑ j, |w j - z j|) + (if P.fitInt then |b - c| else 0)) := by
  have h1 := gap_le_of_certificate P w z b c ε hsw hN hdelta hgamma hpen hcw hfw hfz hbc
  have h2 := gap_le_of_certificate P z w c b ε hsw hN hdelta hgamma hpen hcz hfz hfw
    (fun h => (hbc h).symm)
  have e : (∑ j, |z j - w j|) = ∑ j, |w j - z j| :=
    Finset.sum_congr rfl (fun j _ => abs_sub_comm _ _)
  rw [e, abs_sub_comm c b] at h2
  rw [abs_le]
  constructor <;> linarith

/-- in particular a certified point is `ε·(…)`-optimal: with `ε = 0` it is a global minimiser -/
theorem certified_zero_is_global_min (P : CDProb ℝ n p) (w z : Fin p → ℝ) (b c : ℝ)
    (hsw : ∀ i, 0 ≤ P.sw i) (hN : 0 ≤ P.df.normaliser P.sw)
    (hdelta : ∀ δ, P.df = .huber δ → 0 < δ) (hgamma : P.df = .gamma → ∀ i, 0 ≤ P.y i)
    (hpen : ∀ j, ConvexPen P.pen (P.wts j))
    (hcert : Certificate P w b 0) (hfw : Feasible P w) (hfz : Feasible P z)
    (hbc : P.fitInt = false → b = c) :
    trueObj P w b ≤ trueObj P z c := by
  have := gap_le_of_certificate P w z b c 0 hsw hN hdelta hgamma hpen hcert hfw hfz hbc
  rw [zero_mul] at this
  linarith

end Skglm.C02
