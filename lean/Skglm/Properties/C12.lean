import Skglm.Spec.DocObjectives
import Skglm.Proofs.Datafits
import Skglm.Properties.C11
/-
  C12 — prediction conventions of the linear classifiers: probabilities, decisions, labels.
-/
namespace Skglm.C12
open Skglm Skglm.Spec Skglm.Proofs
variable {n p : Nat}

theorem sigmoidProba_eq (d : ℝ) : sigmoidProba d = 1 / (1 + Real.exp (-d)) := rfl

/-- `expit` takes values in the open unit interval -/
theorem proba_in_unit_interval (d : ℝ) : 0 < sigmoidProba d ∧ sigmoidProba d < 1 := by
  rw [sigmoidProba_eq]
  have he : 0 < Real.exp (-d) := Real.exp_pos _
  constructor
  · positivity
  · rw [div_lt_one (by positivity)]; linarith

/-- the two class probabilities of the logistic model add up to one -/
theorem proba_binary_sums_to_one (d : ℝ) : sigmoidProba d + sigmoidProba (-d) = 1 := by
  simp only [sigmoidProba_eq, neg_neg, Real.exp_neg]
  have he : 0 < Real.exp d := Real.exp_pos _
  field_simp
  ring

theorem proba_strict_mono {d₁ d₂ : ℝ} (h : d₁ < d₂) : sigmoidProba d₁ < sigmoidProba d₂ := by
  simp only [sigmoidProba_eq]
  have h1 : Real.exp (-d₂) < Real.exp (-d₁) := Real.exp_lt_exp.2 (by linarith)
  have he : 0 < Real.exp (-d₂) := Real.exp_pos _
  exact one_div_lt_one_div_of_lt (by positivity) (by linarith)

/-- `predict` returns `classes_[1]` exactly when its probability exceeds one half -/
theorem predict_iff_proba_gt_half (d : ℝ) : predictBinary d = true ↔ 1 / 2 < sigmoidProba d := by
  unfold predictBinary
  rw [decide_eq_true_iff, sigmoidProba_eq]
  have he : 0 < Real.exp (-d) := Real.exp_pos _
  rw [div_lt_div_iff₀ (by norm_num) (by positivity)]
  constructor
  · intro h
    have : Real.exp (-d) < 1 := by rw [← Real.exp_zero]; exact Real.exp_lt_exp.2 (by linarith)
    linarith
  · intro h
    have h1 : Real.exp (-d) < Real.exp 0 := by rw [Real.exp_zero]; linarith
    have := Real.exp_lt_exp.1 h1
    linarith

/-! ### the binary `predict_proba` of the code: `softmax([-d, d])` -/

/-- what the code returns for two classes is `expit` of **twice** the decision -/
theorem probaBinary_eq (d : ℝ) :
    probaBinary d = (sigmoidProba (-(2 * d)), sigmoidProba (2 * d)) := by
  have h1 : 0 < Real.exp d := Real.exp_pos _
  have e2 : Real.exp (2 * d) = Real.exp d * Real.exp d := by rw [← Real.exp_add]; ring_nf
  simp only [probaBinary, sigmoidProba_eq, scalar_exp_eq, neg_neg, Real.exp_neg, e2]
  refine Prod.ext ?_ ?_
  · simp only; field_simp
  · simp only; field_simp; ring

theorem probaBinary_sums_to_one (d : ℝ) : (probaBinary d).1 + (probaBinary d).2 = 1 := by
  rw [probaBinary_eq]
  have := proba_binary_sums_to_one (2 * d)
  simp only at this ⊢
  linarith

theorem probaBinary_in_unit_interval (d : ℝ) :
    (0 < (probaBinary d).1 ∧ (probaBinary d).1 < 1) ∧
    (0 < (probaBinary d).2 ∧ (probaBinary d).2 < 1) := by
  rw [probaBinary_eq]
  exact ⟨proba_in_unit_interval _, proba_in_unit_interval _⟩

/-- `predict` and the code's binary `predict_proba` agree on the predicted class -/
theorem predict_iff_probaBinary_gt_half (d : ℝ) :
    predictBinary d = true ↔ 1 / 2 < (probaBinary d).2 := by
  rw [probaBinary_eq]
  have h := predict_iff_proba_gt_half (2 * d)
  simp only at h ⊢
  rw [← h]
  unfold predictBinary
  rw [decide_eq_true_iff, decide_eq_true_iff]
  constructor <;> intro h' <;> linarith

/-- … but it is **not** the logistic model's probability `expit(decision)` (the one-vs-rest
    convention `_predict_proba_lr`, used by the same method for more than two classes), except at
    `decision = 0` -/
theorem probaBinary_ne_logistic_proba (d : ℝ) (hd : d ≠ 0) :
    (probaBinary d).2 ≠ (probaBinaryLr d).2 := by
  rw [probaBinary_eq]
  simp only [probaBinaryLr]
  intro h
  rcases lt_or_gt_of_ne hd with h' | h'
  · have := proba_strict_mono (by linarith : 2 * d < d)
    linarith
  · have := proba_strict_mono (by linarith : d < 2 * d)
    linarith

/-! ### one-vs-rest normalisation -/

theorem ovr_normalised_sums_to_one {k : Nat} (ps : Fin k → ℝ) (h : 0 < ∑ c, ps c) :
    ∑ c, ovrNormalise ps c = 1 := by
  simp only [ovrNormalise, vsum_eq]
  rw [← Finset.sum_div, div_self h.ne']

theorem ovr_normalised_in_unit_interval {k : Nat} (ps : Fin k → ℝ) (hpos : ∀ c, 0 < ps c)
    (c : Fin k) : 0 < ovrNormalise ps c ∧ ovrNormalise ps c ≤ 1 := by
  simp only [ovrNormalise, vsum_eq]
  have hle : ps c ≤ ∑ c, ps c :=
    Finset.single_le_sum (fun i _ => (hpos i).le) (Finset.mem_univ c)
  have hS : 0 < ∑ c, ps c := lt_of_lt_of_le (hpos c) hle
  exact ⟨div_pos (hpos c) hS, (div_le_one hS).2 hle⟩

/-- raising the score of class `c` (the others fixed) does not lower its normalised probability -/
theorem ovr_normalise_monotone {k : Nat} (ps : Fin k → ℝ) (hpos : ∀ c, 0 < ps c) (c : Fin k)
    (x' : ℝ) (hx : ps c ≤ x') :
    ovrNormalise ps c ≤ ovrNormalise (Function.update ps c x') c := by
  simp only [ovrNormalise, vsum_eq, Function.update_self]
  have h1 : ∑ c', Function.update ps c x' c' = x' + ∑ c' ∈ Finset.univ \ {c}, ps c' :=
    Finset.sum_update_of_mem (Finset.mem_univ c) ps x'
  have h2 : ∑ c', ps c' = ps c + ∑ c' ∈ Finset.univ \ {c}, ps c' := by
    have := Finset.sum_update_of_mem (Finset.mem_univ c) ps (ps c)
    rwa [Function.update_eq_self] at this
  have hS : 0 ≤ ∑ c' ∈ Finset.univ \ {c}, ps c' := Finset.sum_nonneg (fun i _ => (hpos i).le)
  rw [h1, h2]
  have hc := hpos c
  rw [div_le_div_iff₀ (by linarith) (by linarith)]
  nlinarith [mul_nonneg hS (sub_nonneg.2 hx)]

/-! ### labels -/

/-- the encoded labels of a two-class problem are `±1` (hypothesis of the logistic curvature bound) -/
theorem encode_is_pm_one (c : Bool) : (encodeBinary c : ℝ) = 1 ∨ (encodeBinary c : ℝ) = -1 := by
  cases c <;> simp [encodeBinary]

/-- renaming the two classes negates the encoded label -/
theorem encode_swap (c : Bool) : (encodeBinary (!c) : ℝ) = -encodeBinary c := by
  cases c <;> simp [encodeBinary]

theorem label_mirror_logistic (y u : ℝ) :
    (DF.logistic : DF ℝ).loss1 (-y) (-u) = (DF.logistic : DF ℝ).loss1 y u := by
  simp only [DF.loss1, neg_mul_neg]

/-- the logistic datafit of the mirrored labels at the mirrored model is the original value -/
theorem label_mirror_value (sw y u : Fin n → ℝ) (w : Fin p → ℝ) :
    (DF.logistic : DF ℝ).value sw (fun i => -y i) (fun i => -u i) (fun j => -w j)
      = (DF.logistic : DF ℝ).value sw y u w := by
  simp only [DF.value, label_mirror_logistic, DF.lin, vsum_eq, zero_mul]

/-- swapping the two class labels of a `SparseLogisticRegression` problem maps the objective at
    `(w, b)` to the objective at `(-w, -b)`: minimisers are mirrored, only the names change -/
theorem label_mirror_objective (a : ℝ) (fi : Bool) (X : Fin n → Fin p → ℝ) (y : Fin n → ℝ)
    (wts w : Fin p → ℝ) (b : ℝ) :
    trueObj ((Est.slr a fi).problem X (fun i => -y i) wts) (fun j => -w j) (-b)
      = trueObj ((Est.slr a fi).problem X y wts) w b := by
  unfold trueObj
  have hl : linPred ((Est.slr a fi).problem X (fun i => -y i) wts) (fun j => -w j) (-b)
      = fun i => -(linPred ((Est.slr a fi).problem X y wts) w b i) := by
    funext i
    simp only [linPred, Est.problem, mul_neg, Finset.sum_neg_distrib]
    ring
  rw [hl]
  congr 1
  · exact label_mirror_value _ _ _ _
  · refine Finset.sum_congr rfl (fun j _ => ?_)
    simp only [Est.problem, Est.penalty, pen, SepPen.positive, Bool.false_eq_true, false_and,
      if_false, abs_neg]

/-- … and the mirrored model takes the mirrored decisions, hence predicts the renamed class -/
theorem decision_mirror (w : Fin p → ℝ) (b : ℝ) (x : Fin p → ℝ) :
    decision (fun j => -w j) (-b) x = -decision w b x := by
  simp only [decision, vsum_eq, neg_mul, Finset.sum_neg_distrib]
  ring

/-! ### decisions -/

theorem decision_linear_in_model (w : Fin p → ℝ) (b : ℝ) (x : Fin p → ℝ) :
    decision w b x = (∑ j, w j * x j) + b := by
  simp only [decision, vsum_eq]

/-- the decision on a training row is the linear predictor the solver maintains -/
theorem decision_eq_linPred (P : CDProb ℝ n p) (w : Fin p → ℝ) (b : ℝ) (i : Fin n) :
    decision w b (P.X i) = linPred P w b i := by
  simp only [decision, vsum_eq, linPred]
  congr 1
  exact Finset.sum_congr rfl (fun j _ => mul_comm _ _)

end Skglm.C12
