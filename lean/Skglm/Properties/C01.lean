import Skglm.Proofs.Run
/-
  C01 — reported convergence is a valid first-order optimality certificate
  (coordinate-descent solver AndersonCD, sub-differential strategy; the other solvers are covered by
  the correspondence and the certificate oracle only — see DESIGN.md).
-/
namespace Skglm.C01
open Skglm Skglm.Spec Skglm.Proofs
variable {n p : Nat}

/-- I1: in every state the solver can reach — any number of outer iterations, epochs over any working
    sets, intercept updates, accepted or rejected extrapolations with any coefficients summing to one —
    from a start with a consistent model fit, the buffer is `X w + b`. -/
theorem buffer_consistent_along_runs (P : CDProb ℝ n p) (s₀ s : CDState ℝ n p) (h₀ : Consistent P s₀)
    (h : Reach P s₀ s) : Consistent P s := reach_consistent P s₀ s h₀ h

/-- the criterion of the outer loop is a certificate: whenever it is `≤ tol` in a reachable state, the
    point `(w, b)` satisfies first-order optimality within `tol` for the documented problem, the
    violation being expressed from `X, y, w, b` alone (`Certificate` in `Skglm/Spec/Solver.lean`) -/
theorem stop_is_certificate (P : CDProb ℝ n p) (s₀ s : CDState ℝ n p) (c tol : ℝ)
    (hc₀ : Consistent P s₀) (h : Reach P s₀ s)
    (hadm : ∀ j, ∃ st, Admissible P.pen (P.wts j) st)
    (hbox : ∀ a, P.pen = .box a → 0 < a ∧ ∀ j, 0 ≤ s.w j ∧ s.w j ≤ a)
    (hscad : ∀ a g, P.pen = .scad a g → 1 < g)
    (hroot : ∀ a, P.pen = .l05 a ∨ P.pen = .l23 a → 0 < a)
    (hstop : P.stopCrit false s = .fin c) (hc : c ≤ tol) :
    Certificate P s.w s.b tol :=
  reach_stop_certificate P s₀ s c tol hc₀ h hadm hbox hscad hroot hstop hc

/-- the extrapolated point is consistent for every coefficient vector summing to one -/
theorem extrapolation_keeps_buffer {K : Nat} (P : CDProb ℝ n p) (inWs : Fin p → Bool) (cur : CDState ℝ n p)
    (buf : Fin K → CDState ℝ n p) (c : Fin K → ℝ) (hc : ∑ k, c k = 1)
    (hbuf : ∀ k, Consistent P (buf k)) (hout : ∀ k j, inWs j = false → (buf k).w j = cur.w j) :
    Consistent P (CDProb.extrapPoint inWs cur buf c) :=
  extrapPoint_consistent P inWs cur buf c hc hbuf hout

/-- non-vacuity: the cold start of every problem is consistent -/
example (P : CDProb ℝ n p) : Consistent P { w := fun _ => 0, b := 0, Xw := fun _ => 0 } := by
  intro i; simp

end Skglm.C01
