import Skglm.Proofs.CD
/-
  C10 — results do not depend on how X is stored (CSC vs dense; memory order is invisible to the model,
  whose matrices are abstract column families).  float32 and sklearn's container conversion are covered by
  the correspondence only.
-/
namespace Skglm.C10
open Skglm Skglm.Spec Skglm.Proofs
variable {n p : Nat}

/-- one coordinate step on a well-formed CSC matrix is the dense step on the matrix it represents -/
theorem cd_step_sparse_eq_dense (P : CDProb ℝ n p) (M : CSC ℝ n p) (s : CDState ℝ n p) (j : Fin p)
    (hX : P.X = M.toDense) (hnodup : ∀ j, ((M j).map Prod.fst).Nodup) :
    P.cdStepSparse M s j = P.cdStep s j := cdStepSparse_eq_dense P M s j hX hnodup

/-- a whole epoch, for every working set: identical states, hence identical trajectories of the solver
    for every budget (all other moves only read `Xw`, `w`) -/
theorem cd_epoch_sparse_eq_dense (P : CDProb ℝ n p) (M : CSC ℝ n p) (s : CDState ℝ n p) (ws : List (Fin p))
    (hX : P.X = M.toDense) (hnodup : ∀ j, ((M j).map Prod.fst).Nodup) :
    P.cdEpochSparse M s ws = P.cdEpoch s ws := cdEpochSparse_eq_dense P M s ws hX hnodup

/-- gradients used by the outer-loop optimality test -/
theorem grad_sparse_eq_dense (d : DF ℝ) (M : CSC ℝ n p) (sw y u : Fin n → ℝ) (j : Fin p) :
    d.gradScalarSparse M sw y u j = d.gradScalar M.toDense sw y u j := gradScalarSparse_eq_dense d M sw y u j

/-- step-size constants -/
theorem lipschitz_sparse_eq_dense (d : DF ℝ) (M : CSC ℝ n p) (sw : Fin n → ℝ) (j : Fin p)
    (hnodup : ((M j).map Prod.fst).Nodup) :
    d.lipschitzSparse M sw j = d.lipschitz M.toDense sw j := lipschitzSparse_eq_dense d M sw j hnodup

/-- explicit stored zeros do not change the represented matrix (non-vacuity of "well-formed CSC") -/
example : CSC.toDense (n := 2) (p := 1) (fun _ => [((0 : Fin 2), (0:ℝ)), ((1 : Fin 2), (3:ℝ))]) 1 0 = 3 := by
  simp [CSC.toDense]

end Skglm.C10
