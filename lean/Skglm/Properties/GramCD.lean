import Skglm.Proofs.GramCD
/-
  GramCD (`skglm/solvers/gram_cd.py`) — the solver-level properties of the coordinate-descent solver,
  for the moves of `Skglm/Model/GramCD.lean`.

  The solver keeps `grad = scaled_gram @ w - scaled_Xty` instead of the model fit `Xw`.

  * (a) gradient-buffer consistency [C01/C05]: `grad = G w - q` after every coordinate step (cyclic or
    greedy, any selection), every epoch, every accepted or rejected extrapolation with coefficients
    summing to one; in every reachable state (`GramReach`).  Symmetry of `G` is **not** needed here
    (the code adds column `j` of `G`, which is what `G @ w` needs); it is needed for descent.
    `Σ c = 1` **is** needed: `grad` is affine in `w` (`extrap_consistent_needs_sum_one`).
  * (b) objective [C02/C11/C17]: for `P = ofData X y`, the `p_obj` expression is
    `‖y - Xw‖²/(2n) + penalty.value(w)`, i.e. AndersonCD's objective with the Quadratic datafit.
  * (c) descent [C03]: coordinate steps (prox-optimal penalties), acceptance, runs.
  * (d) feasibility [C04]: prox steps and the guarded acceptance keep constraints, for *any*
    extrapolated candidate (`GramReachAny`).
  * (e) null columns [C19].
  * (f) the stopping criterion is AndersonCD's certificate [C01].
-/
namespace Skglm.Gram
open Skglm Skglm.Spec Skglm.Proofs
variable {n p : Nat}

/-! ### reachable states -/

/-- states reachable from `s₀` by the moves of `GramCD._solve`: coordinate steps on any selected
    feature (cyclic order, greedy `argmax` choices, anything else), guarded acceptance of the point
    extrapolated from previously visited states with coefficients summing to one (what
    `AndersonAcceleration` produces: `C = z / sum(z)`) -/
inductive GramReach (P : GramProb ℝ p) (s₀ : GramState ℝ p) : GramState ℝ p → Prop
  | start : GramReach P s₀ s₀
  | coord {s} (j : Fin p) : GramReach P s₀ s → GramReach P s₀ (P.gramStep s j)
  | accept {s} {K : Nat} (buf : Fin K → GramState ℝ p) (c : Fin K → ℝ) :
      GramReach P s₀ s → (∀ k, GramReach P s₀ (buf k)) → (∑ k, c k = 1) →
      GramReach P s₀ (P.acceptMove s (GramProb.extrapPoint buf c))

/-- the same with *any* candidate in the acceptance test (arbitrary coefficients, arbitrary
    buffers, arbitrary gradient buffer of the candidate) -/
inductive GramReachAny (P : GramProb ℝ p) (s₀ : GramState ℝ p) : GramState ℝ p → Prop
  | start : GramReachAny P s₀ s₀
  | coord {s} (j : Fin p) : GramReachAny P s₀ s → GramReachAny P s₀ (P.gramStep s j)
  | accept {s} (acc : GramState ℝ p) : GramReachAny P s₀ s → GramReachAny P s₀ (P.acceptMove s acc)

theorem GramReach.toAny {P : GramProb ℝ p} {s₀ s : GramState ℝ p} (h : GramReach P s₀ s) :
    GramReachAny P s₀ s := by
  induction h with
  | start => exact .start
  | coord j _ ih => exact .coord j ih
  | accept buf c _ _ _ ih _ => exact .accept _ ih

/-- an epoch over any sequence of selected features stays inside `GramReach` -/
theorem reach_epoch (P : GramProb ℝ p) (s₀ s : GramState ℝ p) (js : List (Fin p))
    (h : GramReach P s₀ s) : GramReach P s₀ (P.gramEpoch s js) := by
  unfold GramProb.gramEpoch
  induction js generalizing s with
  | nil => exact h
  | cons j js ih => exact ih _ (.coord j h)

theorem reach_foldl (P : GramProb ℝ p) (s₀ : GramState ℝ p) :
    ∀ (m : Nat) (f : GramState ℝ p → Fin m → GramState ℝ p),
      (∀ s i, GramReach P s₀ s → GramReach P s₀ (f s i)) →
      ∀ s, GramReach P s₀ s → GramReach P s₀ (Fin.foldl m f s) := by
  intro m
  induction m with
  | zero => intro f _ s h; simpa [Fin.foldl_zero] using h
  | succ m ih =>
    intro f hf s h
    rw [Fin.foldl_succ_last]
    exact hf _ _ (ih (fun s i => f s i.castSucc) (fun s i hs => hf s _ hs) s h)

/-- the greedy epoch (`np.argmax` of the scores before each step) stays inside `GramReach` -/
theorem reach_epoch_greedy (P : GramProb ℝ p) (s₀ s : GramState ℝ p) (h : GramReach P s₀ s) :
    GramReach P s₀ (P.gramEpochGreedy s) := by
  unfold GramProb.gramEpochGreedy
  exact reach_foldl P s₀ p _ (fun s i hs => .coord _ hs) s h

/-- every state returned by the outer loop (`use_acc=False`), for every `max_iter`, tolerance and
    selection rule, is reachable -/
theorem reach_solve (P : GramProb ℝ p) (greedy : Bool) (tol : ℝ) (s₀ : GramState ℝ p) :
    ∀ (fuel : Nat) (s : GramState ℝ p) (crit : Ext ℝ), GramReach P s₀ s →
      GramReach P s₀ (P.solve greedy tol fuel s crit).1 := by
  intro fuel
  induction fuel with
  | zero => intro s crit h; exact h
  | succ fuel ih =>
    intro s crit h
    unfold GramProb.solve
    dsimp only
    split_ifs
    · exact h
    · exact ih _ _ (reach_epoch_greedy P s₀ s h)
    · exact ih _ _ (reach_epoch P s₀ s _ h)

/-! ### (a) gradient-buffer consistency [C01 / C05] -/

/-- the Gram matrix built by `_solve` is symmetric, with a non-negative diagonal -/
theorem ofData_symmetric (X : Fin n → Fin p → ℝ) (y : Fin n → ℝ) (pn : SepPen ℝ) (wts : Fin p → ℝ) :
    Symm (GramProb.ofData X y pn wts) ∧ ∀ j, 0 ≤ (GramProb.ofData X y pn wts).G j j :=
  ⟨ofData_symm X y pn wts, ofData_diag_nonneg X y pn wts⟩

theorem cold_start_consistent (P : GramProb ℝ p) : GradConsistent P P.init := init_consistent P

theorem warm_start_consistent (P : GramProb ℝ p) (w0 : Fin p → ℝ) :
    GradConsistent P (P.initWarm w0) := initWarm_consistent P w0

theorem step_consistent (P : GramProb ℝ p) (s : GramState ℝ p) (j : Fin p)
    (h : GradConsistent P s) : GradConsistent P (P.gramStep s j) := gramStep_consistent P s j h

theorem epoch_consistent (P : GramProb ℝ p) (s : GramState ℝ p) (js : List (Fin p))
    (h : GradConsistent P s) : GradConsistent P (P.gramEpoch s js) := gramEpoch_consistent P s js h

theorem extrapolation_consistent {K : Nat} (P : GramProb ℝ p) (buf : Fin K → GramState ℝ p)
    (c : Fin K → ℝ) (hc : ∑ k, c k = 1) (hbuf : ∀ k, GradConsistent P (buf k)) :
    GradConsistent P (GramProb.extrapPoint buf c) := extrapPoint_consistent P buf c hc hbuf

theorem accept_consistent (P : GramProb ℝ p) (s acc : GramState ℝ p) (hs : GradConsistent P s)
    (ha : GradConsistent P acc) : GradConsistent P (P.acceptMove s acc) :=
  acceptMove_consistent P s acc hs ha

theorem reach_consistent (P : GramProb ℝ p) (s₀ s : GramState ℝ p) (h₀ : GradConsistent P s₀)
    (h : GramReach P s₀ s) : GradConsistent P s := by
  induction h with
  | start => exact h₀
  | coord j _ ih => exact step_consistent P _ j ih
  | accept buf c _ _ hc ih ihbuf =>
    exact accept_consistent P _ _ ih (extrapolation_consistent P buf c hc ihbuf)

/-- witness problem: `p = 1`, `G = (1)`, `q = (1)`, no penalty -/
noncomputable def witP : GramProb ℝ 1 :=
  { G := fun _ _ => 1, q := fun _ => 1, c := 0, pen := .l1 0 false, wts := fun _ => 1 }

/-- `Σ c = 1` cannot be dropped: `grad = G w - q` is affine, so combining consistent pairs with
    coefficients that do not sum to one gives a wrong gradient.  Witness: the cold start `(0, -1)` of
    `witP` combined with itself with coefficient `2` gives `(0, -2)`. -/
theorem extrap_consistent_needs_sum_one :
    ∃ (P : GramProb ℝ 1) (buf : Fin 1 → GramState ℝ 1) (c : Fin 1 → ℝ),
      (∀ k, GradConsistent P (buf k)) ∧ ¬ GradConsistent P (GramProb.extrapPoint buf c) := by
  refine ⟨witP, fun _ => { w := fun _ => 0, grad := fun _ => -1 }, fun _ => 2, ?_, ?_⟩
  · intro k j; simp [witP]
  · intro h
    have h0 := h 0
    norm_num [witP, GramProb.extrapPoint, vsum_eq] at h0

/-- … and such a point can be *accepted*, after which the code keeps the extrapolated gradient
    (`grad[:] = grad_acc`, no recomputation): from the cold start of `witP`, the visited consistent
    state `(w, grad) = (1, 0)` with coefficient `1/2` gives the candidate `(1/2, 0)`, whose objective
    `-3/8` beats `0`; the true gradient at `1/2` is `-1/2`. -/
theorem accept_consistent_needs_sum_one :
    ∃ (P : GramProb ℝ 1) (s : GramState ℝ 1) (buf : Fin 1 → GramState ℝ 1) (c : Fin 1 → ℝ),
      GradConsistent P s ∧ (∀ k, GradConsistent P (buf k)) ∧
      ¬ GradConsistent P (P.acceptMove s (GramProb.extrapPoint buf c)) := by
  refine ⟨witP, { w := fun _ => 0, grad := fun _ => -1 },
    fun _ => { w := fun _ => 1, grad := fun _ => 0 }, fun _ => 1 / 2, ?_, ?_, ?_⟩
  · intro j; simp [witP]
  · intro k j; simp [witP]
  · intro h
    have h0 := h 0
    have hlt : Ext.lt
        (witP.objNoConst (GramProb.extrapPoint (p := 1)
          (fun _ : Fin 1 => { w := fun _ => 1, grad := fun _ => (0:ℝ) }) (fun _ => (1:ℝ) / 2)).w)
        (witP.objNoConst (fun _ : Fin 1 => (0:ℝ))) = true := by
      simp [witP, GramProb.objNoConst, GramProb.quadNoConst, GramProb.extrapPoint, GramProb.Gw,
        dot_eq, vsum_eq, SepPen.value, esum, SepPen.pen1, SepPen.positive, Fin.foldl_succ,
        Fin.foldl_zero, Ext.add, Ext.lt]
      norm_num
    unfold GramProb.acceptMove at h0
    rw [if_pos hlt] at h0
    norm_num [witP, GramProb.extrapPoint, vsum_eq] at h0

/-! ### (b) the objective is the documented one [C02 / C11 / C17] -/

/-- the expression `_solve` computes for `p_obj` is `‖y - Xw‖² / (2n) + penalty.value(w)` -/
theorem objective_eq_quadratic (X : Fin n → Fin p → ℝ) (y : Fin n → ℝ) (pn : SepPen ℝ)
    (wts w : Fin p → ℝ) :
    (GramProb.ofData X y pn wts).objective w
      = Ext.add (.fin ((∑ i, (y i - ∑ j, X i j * w j) ^ 2) / (2 * n))) (pn.value wts w) := by
  rw [objective_eq, quad_ofData]
  rfl

/-- … which is the objective AndersonCD computes for the Quadratic datafit (no intercept) in the state
    with the same coefficients and the exact model fit: both solvers minimise the same function -/
theorem objective_eq_andersonCD (X : Fin n → Fin p → ℝ) (y : Fin n → ℝ) (pn : SepPen ℝ)
    (wts w : Fin p → ℝ) :
    (GramProb.ofData X y pn wts).objective w = (toCD X y pn wts).objective (toCDState X w) := by
  rw [objective_eq_quadratic]
  unfold CDProb.objective toCD toCDState
  simp only [DF.value, DF.loss1, DF.normaliser, DF.lin, vsum_eq, nat_eq, one_mul, zero_mul, add_zero,
    Nat.cast_ofNat]
  congr 2
  rw [Finset.sum_div, Finset.sum_div]
  refine Finset.sum_congr rfl (fun i _ => ?_)
  rw [div_div]
  ring

/-- the state used for the comparison is a consistent AndersonCD state -/
theorem toCDState_consistent (X : Fin n → Fin p → ℝ) (y : Fin n → ℝ) (pn : SepPen ℝ)
    (wts w : Fin p → ℝ) : Consistent (toCD X y pn wts) (toCDState X w) := by
  intro i
  simp [toCD, toCDState]

/-- on feasible points it is the documented objective `trueObj` of `Skglm/Spec/Solver.lean` -/
theorem objective_eq_trueObj (X : Fin n → Fin p → ℝ) (y : Fin n → ℝ) (pn : SepPen ℝ)
    (wts w : Fin p → ℝ) (hf : Feasible (GramProb.ofData X y pn wts) w)
    (hg : ∀ a g pos, pn = .mcp a g pos ∨ pn = .wmcp a g pos → 0 < g) :
    (GramProb.ofData X y pn wts).objective w = .fin (trueObj (toCD X y pn wts) w 0) := by
  rw [objective_eq_andersonCD]
  exact Proofs.objective_eq_trueObj (toCD X y pn wts) (toCDState X w)
    (toCDState_consistent X y pn wts w) hf hg

/-- the acceptance test compares the same two objectives (the constant is dropped on both sides) -/
theorem acceptance_test_eq (P : GramProb ℝ p) (a b : Fin p → ℝ) :
    Ext.lt (P.objNoConst a) (P.objNoConst b) = Ext.lt (P.objective a) (P.objective b) := by
  unfold GramProb.objNoConst GramProb.objective
  cases P.pen.value P.wts a <;> cases P.pen.value P.wts b <;> simp [Ext.add, Ext.lt]
  constructor <;> intro h <;> linarith

/-! ### (c) descent [C03] -/

/-- a coordinate step with the code's step `1 / G_jj` does not increase the objective: convex
    penalties, and MCP inside its range (only global optimality of the prox is used).  Needs a
    symmetric `G` with `0 ≤ G_jj` (true of `ofData`) and an exact gradient buffer. -/
theorem step_descent (P : GramProb ℝ p) (s : GramState ℝ p) (j : Fin p) (hS : Symm P)
    (hc : GradConsistent P s) (hL : 0 ≤ P.G j j)
    (hprox : P.G j j ≠ 0 → ProxOptimal P j (1 / P.G j j))
    (hg : ∀ a g pos, P.pen = .mcp a g pos ∨ P.pen = .wmcp a g pos → 0 < g) :
    Ext.le (P.objective (P.gramStep s j).w) (P.objective s.w) = true :=
  gramStep_descent P s j hS hc hL hprox hg

/-- the prox-optimality hypothesis is discharged by C07 for the penalties it covers -/
theorem proxOptimal_of_admissible (P : GramProb ℝ p) (j : Fin p) (st : ℝ)
    (hpen : (∃ a pos, P.pen = .l1 a pos) ∨ (∃ a pos, P.pen = .wl1 a pos) ∨
            (∃ a r pos, P.pen = .l1l2 a r pos) ∨
            (∃ a g pos, P.pen = .mcp a g pos) ∨ (∃ a g pos, P.pen = .wmcp a g pos) ∨
            (∃ a, P.pen = .box a) ∨ P.pen = .pos)
    (hadm : Admissible P.pen (P.wts j) st) : ProxOptimal P j st := by
  intro x v
  rcases hpen with ⟨a, pos, hp⟩ | ⟨a, pos, hp⟩ | ⟨a, r, pos, hp⟩ | ⟨a, g, pos, hp⟩ |
    ⟨a, g, pos, hp⟩ | ⟨a, hp⟩ | hp <;> rw [hp] at hadm ⊢
  · exact C07.prox_l1 a pos _ x st hadm v
  · exact C07.prox_wl1 a pos _ x st hadm v
  · exact C07.prox_l1l2 a r pos _ x st hadm v
  · exact C07.prox_mcp a g pos _ x st hadm v
  · exact C07.prox_wmcp a g pos _ x st hadm v
  · exact C07.prox_box a _ x st hadm v
  · exact C07.prox_pos _ x st hadm v

/-- witness problem with a non-symmetric `G = [[1, 3], [-1, 1]]`, `q = 0`, no penalty -/
noncomputable def witNS : GramProb ℝ 2 :=
  { G := fun j k => if j = 0 ∧ k = 1 then 3 else if j = 1 ∧ k = 0 then -1 else 1,
    q := fun _ => 0, c := 0, pen := .l1 0 false, wts := fun _ => 1 }

/-- the consistent state `w = (0, 1)`, `grad = G w - q = (3, 1)` -/
noncomputable def witNSs : GramState ℝ 2 :=
  { w := fun k => if k = 0 then 0 else 1, grad := fun k => if k = 0 then 3 else 1 }

/-- symmetry of `G` cannot be dropped from `step_descent`: with `G = [[1, 3], [-1, 1]]` the buffer
    `G w - q` is not the gradient of `½ wᵀGw`, and the step from `w = (0, 1)` on feature `0` moves the
    objective from `1/2` to `2` -/
theorem step_descent_needs_symmetry :
    ∃ (P : GramProb ℝ 2) (s : GramState ℝ 2) (j : Fin 2),
      GradConsistent P s ∧ (∀ j, 0 < P.G j j) ∧ (∀ j, ProxOptimal P j (1 / P.G j j)) ∧
      Ext.le (P.objective (P.gramStep s j).w) (P.objective s.w) = false := by
  have hG : ∀ j, witNS.G j j = 1 := by
    intro j; fin_cases j <;> simp [witNS]
  refine ⟨witNS, witNSs, 0, ?_, ?_, ?_, ?_⟩
  · intro j
    fin_cases j <;> simp [witNS, witNSs, Fin.sum_univ_two]
  · intro j; rw [hG]; exact one_pos
  · intro j
    refine proxOptimal_of_admissible witNS j _ (Or.inl ⟨0, false, rfl⟩) ?_
    rw [hG]
    exact ⟨by norm_num, zero_le_one, le_refl _⟩
  · rw [gramStep_w _ _ _ (by rw [hG]; exact one_ne_zero), objective_eq, objective_eq]
    have hnew : newVal witNS witNSs 0 = -3 := by
      simp [newVal, witNS, witNSs, SepPen.prox1, ST]
    rw [hnew]
    simp [quad, witNS, witNSs, SepPen.value, esum, SepPen.pen1, SepPen.positive, Fin.foldl_succ,
      Fin.foldl_zero, Fin.sum_univ_two, Ext.add, Ext.le, sabs_eq]
/-- accepting an extrapolated point never increases the objective, whatever the point -/
theorem accept_descent (P : GramProb ℝ p) (s acc : GramState ℝ p) :
    Ext.le (P.objective (P.acceptMove s acc).w) (P.objective s.w) = true :=
  acceptMove_descent P s acc

/-- the objective never increases along a run: stopping after any number of moves returns a point no
    worse than the start (and, taking `s₀` to be the state reached with a smaller budget, the
    objective is non-increasing in the budget) -/
theorem reach_descent (P : GramProb ℝ p) (s₀ s : GramState ℝ p) (hS : Symm P)
    (h₀ : GradConsistent P s₀) (hL : ∀ j, 0 ≤ P.G j j)
    (hprox : ∀ j, P.G j j ≠ 0 → ProxOptimal P j (1 / P.G j j))
    (hg : ∀ a g pos, P.pen = .mcp a g pos ∨ P.pen = .wmcp a g pos → 0 < g)
    (h : GramReach P s₀ s) : Ext.le (P.objective s.w) (P.objective s₀.w) = true := by
  induction h with
  | start => exact Ext_le_refl _
  | coord j hs ih =>
    exact Ext_le_trans _ _ _
      (step_descent P _ j hS (reach_consistent P s₀ _ h₀ hs) (hL j) (hprox j) hg) ih
  | accept buf c _ _ _ ih _ => exact Ext_le_trans _ _ _ (accept_descent P _ _) ih

/-! ### (d) feasibility [C04] -/

/-- the prox maps into the feasible set -/
theorem step_feasible (P : GramProb ℝ p) (s : GramState ℝ p) (j : Fin p) (hf : Feasible P s.w)
    (hadm : P.G j j ≠ 0 → Admissible P.pen (P.wts j) (1 / P.G j j)) :
    Feasible P (P.gramStep s j).w := gramStep_feasible P s j hf hadm

/-- an infeasible candidate has objective `+∞` (with or without the constant) … -/
theorem infeasible_objective_inf (P : GramProb ℝ p) (w : Fin p → ℝ) (hf : ¬ Feasible P w)
    (hg : ∀ a g pos, P.pen = .mcp a g pos ∨ P.pen = .wmcp a g pos → 0 < g) :
    P.objective w = .inf ∧ P.objNoConst w = .inf := objective_inf_of_infeasible P w hf hg

/-- … so the acceptance test rejects it -/
theorem accept_feasible (P : GramProb ℝ p) (s acc : GramState ℝ p) (hf : Feasible P s.w)
    (hg : ∀ a g pos, P.pen = .mcp a g pos ∨ P.pen = .wmcp a g pos → 0 < g) :
    Feasible P (P.acceptMove s acc).w := acceptMove_feasible P s acc hf hg

/-- from a feasible start every reachable state is feasible — whatever was proposed to the
    acceptance test -/
theorem reach_feasible (P : GramProb ℝ p) (s₀ s : GramState ℝ p) (h₀ : Feasible P s₀.w)
    (hadm : ∀ j, P.G j j ≠ 0 → Admissible P.pen (P.wts j) (1 / P.G j j))
    (hg : ∀ a g pos, P.pen = .mcp a g pos ∨ P.pen = .wmcp a g pos → 0 < g)
    (h : GramReachAny P s₀ s) : Feasible P s.w := by
  induction h with
  | start => exact h₀
  | coord j _ ih => exact step_feasible P _ j ih (hadm j)
  | accept acc _ ih => exact accept_feasible P _ acc ih hg

/-- the cold start is feasible for every penalty except a box with a negative upper bound -/
theorem cold_start_feasible (P : GramProb ℝ p) (hbox : ∀ a, P.pen = .box a → 0 ≤ a) :
    Feasible P P.init.w := by
  intro j
  refine CDB.pen_isSome_of _ _ _ ?_ ?_
  · rintro ⟨_, h⟩; exact lt_irrefl _ h
  · intro a ha; exact ⟨le_refl _, hbox a ha⟩

/-! ### (e) null columns [C19] -/

/-- `scaled_gram[j, j] == 0`: the step is skipped, nothing changes (no division by zero) -/
theorem step_zero_column (P : GramProb ℝ p) (s : GramState ℝ p) (j : Fin p) (h : P.G j j = 0) :
    P.gramStep s j = s := gramStep_zero P s j h

/-- an all-zero column of `X` gives `G_jj = 0`, `q_j = 0`, and a null row and column of `G` -/
theorem zero_column_ofData (X : Fin n → Fin p → ℝ) (y : Fin n → ℝ) (pn : SepPen ℝ)
    (wts : Fin p → ℝ) (j : Fin p) (h : ∀ i, X i j = 0) :
    (GramProb.ofData X y pn wts).G j j = 0 ∧ (GramProb.ofData X y pn wts).q j = 0 ∧
    (∀ k, (GramProb.ofData X y pn wts).G j k = 0) ∧ (∀ k, (GramProb.ofData X y pn wts).G k j = 0) :=
  ofData_zero_column X y pn wts j h

/-- conversely (with at least one sample) the skip is taken only for all-zero columns -/
theorem skip_iff_zero_column (X : Fin n → Fin p → ℝ) (y : Fin n → ℝ) (pn : SepPen ℝ)
    (wts : Fin p → ℝ) (hn : 0 < n) (j : Fin p) :
    (GramProb.ofData X y pn wts).G j j = 0 ↔ ∀ i, X i j = 0 :=
  ofData_diag_zero_iff X y pn wts hn j

/-- a null column keeps its coefficient and, in a consistent state, has a zero gradient entry:
    whole epochs never move it -/
theorem zero_column_frozen (X : Fin n → Fin p → ℝ) (y : Fin n → ℝ) (pn : SepPen ℝ)
    (wts : Fin p → ℝ) (j : Fin p) (h : ∀ i, X i j = 0) (s : GramState ℝ p)
    (hc : GradConsistent (GramProb.ofData X y pn wts) s) :
    (GramProb.ofData X y pn wts).gramStep s j = s ∧ s.grad j = 0 := by
  obtain ⟨h1, h2, h3, _⟩ := ofData_zero_column X y pn wts j h
  refine ⟨gramStep_zero _ s j h1, ?_⟩
  rw [hc j, h2]
  simp [h3]

/-! ### (f) the stopping criterion is AndersonCD's certificate [C01] -/

/-- the gradient buffer of a consistent state is the partial derivative of the Quadratic datafit
    at `Xw`, as AndersonCD computes it (`datafit.gradient_scalar`) -/
theorem grad_eq_datafit_gradient (X : Fin n → Fin p → ℝ) (y : Fin n → ℝ) (pn : SepPen ℝ)
    (wts : Fin p → ℝ) (s : GramState ℝ p) (hc : GradConsistent (GramProb.ofData X y pn wts) s)
    (j : Fin p) :
    s.grad j = DF.gradScalar (DF.quadratic : DF ℝ) X (fun _ => 1) y
      (fun i => ∑ k, X i k * s.w k) j := by
  rw [hc j, ofData_grad]

/-- GramCD's `stop_crit` *is* AndersonCD's (sub-differential strategy, no intercept) at the state
    with the same coefficients -/
theorem stopCrit_eq_andersonCD (X : Fin n → Fin p → ℝ) (y : Fin n → ℝ) (pn : SepPen ℝ)
    (wts : Fin p → ℝ) (s : GramState ℝ p) (hc : GradConsistent (GramProb.ofData X y pn wts) s) :
    (GramProb.ofData X y pn wts).stopCrit s
      = (toCD X y pn wts).stopCrit false (toCDState X s.w) := by
  have hfun : (fun (acc : Ext ℝ) (j : Fin p) =>
        Ext.max acc ((toCD X y pn wts).score false (toCDState X s.w)
          ((toCD X y pn wts).grad (toCDState X s.w) j) j))
      = fun acc j => Ext.max acc ((GramProb.ofData X y pn wts).scores s j) := by
    funext acc j
    simp only [CDProb.score, CDProb.grad, mat_eq, Bool.false_eq_true, if_false, GramProb.scores,
      ofData_pen, ofData_wts]
    rw [grad_eq_datafit_gradient X y pn wts s hc j]
    rfl
  unfold CDProb.stopCrit GramProb.stopCrit
  dsimp only
  rw [hfun]
  have hio : (toCD X y pn wts).interceptOpt (toCDState X s.w) = 0 := by
    simp [CDProb.interceptOpt, toCD]
  rw [hio]
  cases hm : Fin.foldl p (fun acc j => Ext.max acc ((GramProb.ofData X y pn wts).scores s j))
      (Ext.fin 0) with
  | inf => rfl
  | fin a =>
    have ha := (CDA.foldl_max_fin p _ 0 a hm).1
    simp only [Ext.max, smax_eq, max_eq_left ha]

/-- `stop_crit ≤ tol` bounds, for every feature, the `subdiff_distance` entry evaluated at the *true*
    partial derivative of the Quadratic datafit (recomputed from `X, y, w`) -/
theorem stop_scores_le (X : Fin n → Fin p → ℝ) (y : Fin n → ℝ) (pn : SepPen ℝ)
    (wts : Fin p → ℝ) (s : GramState ℝ p) (c tol : ℝ)
    (hc : GradConsistent (GramProb.ofData X y pn wts) s)
    (hstop : (GramProb.ofData X y pn wts).stopCrit s = .fin c) (hct : c ≤ tol) (j : Fin p) :
    ∃ d, pn.sd1 (wts j) (s.w j)
        (DF.gradScalar (DF.quadratic : DF ℝ) X (fun _ => 1) y (fun i => ∑ k, X i k * s.w k) j)
        = .fin d ∧ d ≤ tol := by
  obtain ⟨_, hall⟩ := stopCrit_scores _ s c hstop
  obtain ⟨d, hd, hdc⟩ := hall j
  rw [grad_eq_datafit_gradient X y pn wts s hc j] at hd
  exact ⟨d, hd, hdc.trans hct⟩

/-- the criterion is a certificate: `stop_crit ≤ tol` in a consistent state gives first-order
    optimality within `tol` for the documented problem — the same `Certificate` as AndersonCD's -/
theorem stop_is_certificate (X : Fin n → Fin p → ℝ) (y : Fin n → ℝ) (pn : SepPen ℝ)
    (wts : Fin p → ℝ) (s : GramState ℝ p) (c tol : ℝ)
    (hc : GradConsistent (GramProb.ofData X y pn wts) s)
    (hadm : ∀ j, ∃ st, Admissible pn (wts j) st)
    (hbox : ∀ a, pn = .box a → 0 < a ∧ ∀ j, 0 ≤ s.w j ∧ s.w j ≤ a)
    (hscad : ∀ a g, pn = .scad a g → 1 < g)
    (hroot : ∀ a, pn = .l05 a ∨ pn = .l23 a → 0 < a)
    (hstop : (GramProb.ofData X y pn wts).stopCrit s = .fin c) (hct : c ≤ tol) :
    Certificate (toCD X y pn wts) s.w 0 tol := by
  rw [stopCrit_eq_andersonCD X y pn wts s hc] at hstop
  refine stopCrit_certificate (toCD X y pn wts) (toCDState X s.w) c tol
    (toCDState_consistent X y pn wts s.w) (fun j => ?_) (by simp [toCD, DF.interceptScale]) hstop hct
  exact score_is_distance pn (wts j) (s.w j) _ (hadm j)
    (fun a hp => ⟨(hbox a hp).1, (hbox a hp).2 j⟩) hscad hroot

/-- run level: in every state reachable from the cold or a warm start of `_solve` -/
theorem reach_stop_is_certificate (X : Fin n → Fin p → ℝ) (y : Fin n → ℝ) (pn : SepPen ℝ)
    (wts : Fin p → ℝ) (s₀ s : GramState ℝ p) (c tol : ℝ)
    (h₀ : GradConsistent (GramProb.ofData X y pn wts) s₀)
    (h : GramReach (GramProb.ofData X y pn wts) s₀ s)
    (hadm : ∀ j, ∃ st, Admissible pn (wts j) st)
    (hbox : ∀ a, pn = .box a → 0 < a ∧ ∀ j, 0 ≤ s.w j ∧ s.w j ≤ a)
    (hscad : ∀ a g, pn = .scad a g → 1 < g)
    (hroot : ∀ a, pn = .l05 a ∨ pn = .l23 a → 0 < a)
    (hstop : (GramProb.ofData X y pn wts).stopCrit s = .fin c) (hct : c ≤ tol) :
    Certificate (toCD X y pn wts) s.w 0 tol :=
  stop_is_certificate X y pn wts s c tol (reach_consistent _ s₀ s h₀ h) hadm hbox hscad hroot hstop hct

/-! ### non-vacuity -/

/-- the Lasso: every hypothesis of the run-level theorems is discharged for all data, so along any
    run of GramCD from the cold start the gradient buffer is exact and the objective
    `‖y - Xw‖²/(2n) + α‖w‖₁` never exceeds its start value `‖y‖²/(2n)` -/
theorem lasso_run (X : Fin n → Fin p → ℝ) (y : Fin n → ℝ) (a : ℝ) (ha : 0 ≤ a) (s : GramState ℝ p)
    (h : GramReach (GramProb.ofData X y (.l1 a false) (fun _ => 1))
      (GramProb.ofData X y (.l1 a false) (fun _ => 1)).init s) :
    GradConsistent (GramProb.ofData X y (.l1 a false) (fun _ => 1)) s ∧
    Ext.le ((GramProb.ofData X y (.l1 a false) (fun _ => 1)).objective s.w)
      (.fin ((∑ i, (y i) ^ 2) / (2 * n))) = true := by
  set P := GramProb.ofData X y (.l1 a false) (fun _ => 1) with hP
  have hc := reach_consistent P P.init s (cold_start_consistent P) h
  refine ⟨hc, ?_⟩
  have hd := reach_descent P P.init s (ofData_symm _ _ _ _) (cold_start_consistent P)
    (ofData_diag_nonneg _ _ _ _)
    (fun j hj => proxOptimal_of_admissible P j _ (Or.inl ⟨a, false, rfl⟩)
      ⟨one_div_pos.2 (lt_of_le_of_ne (ofData_diag_nonneg _ _ _ _ j) (Ne.symm hj)), zero_le_one, ha⟩)
    (fun a' g pos hp => by rcases hp with hp | hp <;> cases hp) h
  have h0 : P.objective P.init.w = .fin ((∑ i, (y i) ^ 2) / (2 * n)) := by
    rw [hP, objective_eq_quadratic]
    have hv : (SepPen.l1 a false).value (fun _ : Fin p => (1:ℝ))
        (GramProb.ofData X y (.l1 a false) (fun _ => 1)).init.w = .fin (∑ _j : Fin p, (0:ℝ)) := by
      unfold SepPen.value
      refine CDB.esum_fin _ _ (fun j => ?_)
      simp [SepPen.pen1, SepPen.positive, GramProb.init, sabs_eq]
    rw [hv]
    simp [GramProb.init, Ext.add]
  rw [h0] at hd
  exact hd

/-- a concrete run: `X = (1)`, `y = (1)`, `α = 1/2`; one step from the cold start lands on the
    Lasso solution `w = 1/2` with an exact gradient buffer, and the criterion is then `0` -/
example :
    let P : GramProb ℝ 1 := GramProb.ofData (fun _ _ => 1) (fun _ : Fin 1 => 1) (.l1 (1 / 2) false)
      (fun _ => 1)
    GramReach P P.init (P.gramStep P.init 0) ∧ GradConsistent P (P.gramStep P.init 0) ∧
      (P.gramStep P.init 0).w 0 = 1 / 2 := by
  intro P
  refine ⟨.coord 0 .start, step_consistent P _ 0 (cold_start_consistent P), ?_⟩
  have hG : P.G 0 0 = 1 := by
    show (GramProb.ofData _ _ _ _).G 0 0 = 1
    rw [ofData_G]; simp
  rw [gramStep_w P P.init 0 (by rw [hG]; exact one_ne_zero)]
  have hq : P.q 0 = 1 := by
    show (GramProb.ofData _ _ _ _).q 0 = 1
    rw [ofData_q]; simp
  simp only [if_true, newVal, hG, GramProb.init, mat_eq, hq]
  show ST _ _ false = 1 / 2
  unfold ST
  norm_num

end Skglm.Gram

