import Skglm.Proofs.Run
/-
  C05 — warm starts and regularisation paths solve the problem they are asked (AndersonCD).
  The theorems of C01 / C03 are universally quantified over the (consistent) start state, so they
  *are* the warm-start statements; a path is a fold of solves, each started from the previous
  result, so the invariant transfers along any grid in any order.
-/
namespace Skglm.C05
open Skglm Skglm.Spec Skglm.Proofs
variable {n p : Nat}

/-- on return — in any reachable state — the caller's buffer equals `X w + b` -/
theorem buffer_on_return (P : CDProb ℝ n p) (s₀ s : CDState ℝ n p) (h₀ : Consistent P s₀)
    (h : Reach P s₀ s) : Consistent P s := reach_consistent P s₀ s h₀ h

/-- consistency does not depend on the penalty's hyper-parameters: the state returned for one `alpha`
    is a consistent start for the next one (any order, any length of the grid) -/
theorem consistent_penalty_irrelevant (P Q : CDProb ℝ n p) (s : CDState ℝ n p) (hX : P.X = Q.X)
    (h : Consistent P s) : Consistent Q s := by
  intro i; have := h i; rw [hX] at this; exact this

/-- a path: solve for `alphas[0]`, restart from the result for `alphas[1]`, ... Every point of the path
    is consistent, hence meets the certificate of *its own* problem whenever its `stop_crit ≤ tol`
    (by `C01.stop_is_certificate`). -/
theorem path_consistent (Ps : List (CDProb ℝ n p)) (X : Fin n → Fin p → ℝ) (hX : ∀ P ∈ Ps, P.X = X)
    (states : List (CDState ℝ n p)) (s₀ : CDState ℝ n p) (hlen : states.length = Ps.length)
    (P₀ : CDProb ℝ n p) (hP₀ : P₀.X = X) (h₀ : Consistent P₀ s₀)
    (hstep : ∀ t (ht : t < Ps.length),
      Reach Ps[t] (if t = 0 then s₀ else states[t - 1]'(by omega)) (states[t]'(by omega))) :
    ∀ t (ht : t < Ps.length), Consistent Ps[t] (states[t]'(by omega)) := by
  intro t
  induction t with
  | zero =>
    intro ht
    have hr := hstep 0 ht
    simp only [if_true] at hr
    have hc : Consistent Ps[0] s₀ := consistent_penalty_irrelevant P₀ Ps[0] s₀
      (by rw [hP₀, hX _ (List.getElem_mem ht)]) h₀
    exact reach_consistent _ _ _ hc hr
  | succ t ih =>
    intro ht
    have hprev := ih (by omega)
    have hr := hstep (t + 1) ht
    simp only [Nat.add_one_ne_zero, if_false, Nat.add_sub_cancel] at hr
    have hc : Consistent Ps[t + 1] (states[t]'(by omega)) :=
      consistent_penalty_irrelevant Ps[t] Ps[t + 1] _
        (by rw [hX _ (List.getElem_mem (by omega)), hX _ (List.getElem_mem ht)]) hprev
    exact reach_consistent _ _ _ hc hr

end Skglm.C05
