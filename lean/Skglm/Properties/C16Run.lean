import Skglm.Properties.C01
import Skglm.Properties.C16
/-
  C16 (run level) — the null solution is obtained exactly from `alpha_max`.

  With `g_j` the partial derivatives of the datafit at the null coefficients (intercept `b`):
  * `alpha ≥ alpha_max`-contribution of every feature  ⇔  every coordinate score at `w = 0` is zero
    ⇔  `w = 0` satisfies the coefficient part of the optimality certificate with tolerance `0`;
  * if some feature has `alpha < |g_j| / level_j`, no point with `w = 0` has a certificate with a
    tolerance below `|g_j| − alpha·level_j`, and the solver cannot stop with `w_j = 0`;
  * with an intercept the reported criterion dominates the intercept update step, so convergence
    cannot be reported at the null coefficients before the intercept is (nearly) optimal.
-/
namespace Skglm.C16Run
open Skglm Skglm.Spec Skglm.Proofs
variable {n p : Nat}

/-- partial derivatives of the datafit at the null coefficients with intercept `b` -/
noncomputable def nullGrad (P : CDProb ℝ n p) (b : ℝ) (j : Fin p) : ℝ :=
  P.df.gradScalar P.X P.sw P.y (linPred P (fun _ => 0) b) j

/-- half-width of the sub-differential at `0` of the penalties that offer `alpha_max`
    (no positivity): `alpha`, `alpha·weight`, `alpha·l1_ratio` -/
def level (pn : SepPen ℝ) (wt : ℝ) : Option ℝ :=
  match pn with
  | .l1 a false => some a
  | .mcp a _ false => some a
  | .wl1 a false => some (a * wt)
  | .wmcp a _ false => some (a * wt)
  | .l1l2 a r false => some (a * r)
  | _ => none

/-- hyper-parameter ranges under which the score is the distance to the sub-differential (C08) -/
def LevelOK (pn : SepPen ℝ) (wt : ℝ) : Prop :=
  match pn with
  | .l1 a _ => 0 ≤ a
  | .mcp a g _ => 0 ≤ a ∧ 0 < g
  | .wl1 a _ => 0 ≤ a ∧ 0 ≤ wt
  | .wmcp a g _ => 0 ≤ a ∧ 0 < g ∧ 0 ≤ wt
  | .l1l2 a r _ => 0 ≤ a ∧ 0 ≤ r ∧ r ≤ 1
  | _ => False

/-- the score at `w_j = 0` is the excess of `|g_j|` over the level -/
theorem sd1_zero_of_level (pn : SepPen ℝ) (wt g lvl : ℝ) (h : level pn wt = some lvl) :
    pn.sd1 wt 0 g = .fin (max 0 (|g| - lvl)) := by
  cases pn with
  | l1 a pos => cases pos <;> simp [level] at h; subst h; simp [SepPen.sd1, SepPen.sdZero, eqb_iff, sabs_eq, smax_eq]
  | mcp a gm pos => cases pos <;> simp [level] at h; subst h; simp [SepPen.sd1, SepPen.sdZero, eqb_iff, sabs_eq, smax_eq]
  | wl1 a pos => cases pos <;> simp [level] at h; subst h; simp [SepPen.sd1, SepPen.sdZero, eqb_iff, sabs_eq, smax_eq]
  | wmcp a gm pos => cases pos <;> simp [level] at h; subst h; simp [SepPen.sd1, SepPen.sdZero, eqb_iff, sabs_eq, smax_eq]
  | l1l2 a r pos => cases pos <;> simp [level] at h; subst h; simp [SepPen.sd1, SepPen.sdZero, eqb_iff, sabs_eq, smax_eq]
  | _ => simp [level] at h

theorem isDist_of_levelOK (pn : SepPen ℝ) (wt w g : ℝ) (h : LevelOK pn wt) :
    IsDistToSubdiff (pen pn wt) w g (pn.sd1 wt w g) := by
  cases pn with
  | l1 a pos => exact C08.sd_l1 a pos wt w g h
  | mcp a gm pos => exact C08.sd_mcp a gm pos wt w g h.1 h.2
  | wl1 a pos => exact C08.sd_wl1 a pos wt w g h.1 h.2
  | wmcp a gm pos => exact C08.sd_wmcp a gm pos wt w g h.1 h.2.1 h.2.2
  | l1l2 a r pos => exact C08.sd_l1l2 a r pos wt w g h.1 h.2.1 h.2.2
  | _ => exact h.elim

/-! ### 1. null coefficients are stationary iff `alpha` dominates every `alpha_max` contribution -/

/-- generic form: all scores at `w = 0` vanish iff every `|g_j|` is within its level -/
theorem null_scores_iff (P : CDProb ℝ n p) (g lvl : Fin p → ℝ)
    (hl : ∀ j, level P.pen (P.wts j) = some (lvl j)) :
    (∀ j, P.pen.sd1 (P.wts j) 0 (g j) = .fin 0) ↔ ∀ j, |g j| ≤ lvl j := by
  refine forall_congr' (fun j => ?_)
  rw [sd1_zero_of_level _ _ _ _ (hl j), Red.fin_eq_iff]
  constructor
  · intro h
    have := le_max_right 0 (|g j| - lvl j)
    rw [h] at this; linarith
  · intro h; exact max_eq_left (by linarith)

/-- Lasso: the scores at the null model vanish iff `alpha ≥ |g_j|` for every feature, i.e.
    `alpha ≥ alpha_max` -/
theorem null_scores_iff_l1 (P : CDProb ℝ n p) (a : ℝ) (g : Fin p → ℝ) (hp : P.pen = .l1 a false)
    (ha : 0 ≤ a) :
    (∀ j, P.pen.sd1 (P.wts j) 0 (g j) = .fin 0) ↔
      ∀ j, ∃ t, P.pen.alphaMax1 (P.wts j) (g j) = some t ∧ t ≤ a := by
  rw [hp]
  refine forall_congr' (fun j => ?_)
  have h := C16.l1_zero_score_iff a (g j) ha
  have e : (SepPen.l1 a false).sd1 (P.wts j) 0 (g j) = (SepPen.l1 a false).sd1 1 0 (g j) := rfl
  rw [e, h]
  simp [SepPen.alphaMax1, sabs_eq]

theorem null_scores_iff_mcp (P : CDProb ℝ n p) (a gm : ℝ) (g : Fin p → ℝ)
    (hp : P.pen = .mcp a gm false) (ha : 0 ≤ a) :
    (∀ j, P.pen.sd1 (P.wts j) 0 (g j) = .fin 0) ↔
      ∀ j, ∃ t, P.pen.alphaMax1 (P.wts j) (g j) = some t ∧ t ≤ a := by
  rw [hp]
  refine forall_congr' (fun j => ?_)
  have h := C16.mcp_zero_score_iff a gm (g j) ha
  have e : (SepPen.mcp a gm false).sd1 (P.wts j) 0 (g j) = (SepPen.mcp a gm false).sd1 1 0 (g j) := rfl
  rw [e, h]
  simp [SepPen.alphaMax1, sabs_eq]

theorem null_scores_iff_wl1 (P : CDProb ℝ n p) (a : ℝ) (g : Fin p → ℝ) (hp : P.pen = .wl1 a false)
    (ha : 0 ≤ a) (hwt : ∀ j, 0 < P.wts j) :
    (∀ j, P.pen.sd1 (P.wts j) 0 (g j) = .fin 0) ↔
      ∀ j, ∃ t, P.pen.alphaMax1 (P.wts j) (g j) = some t ∧ t ≤ a := by
  rw [hp]
  refine forall_congr' (fun j => ?_)
  rw [C16.wl1_zero_score_iff a (P.wts j) (g j) ha (hwt j)]
  simp [SepPen.alphaMax1, sabs_eq, (nz_iff (P.wts j)).2 (hwt j).ne']

theorem null_scores_iff_wmcp (P : CDProb ℝ n p) (a gm : ℝ) (g : Fin p → ℝ)
    (hp : P.pen = .wmcp a gm false) (ha : 0 ≤ a) (hwt : ∀ j, 0 < P.wts j) :
    (∀ j, P.pen.sd1 (P.wts j) 0 (g j) = .fin 0) ↔
      ∀ j, ∃ t, P.pen.alphaMax1 (P.wts j) (g j) = some t ∧ t ≤ a := by
  rw [hp]
  refine forall_congr' (fun j => ?_)
  rw [C16.wmcp_zero_score_iff a gm (P.wts j) (g j) ha (hwt j)]
  simp [SepPen.alphaMax1, sabs_eq, (nz_iff (P.wts j)).2 (hwt j).ne']

theorem null_scores_iff_l1l2 (P : CDProb ℝ n p) (a r : ℝ) (g : Fin p → ℝ)
    (hp : P.pen = .l1l2 a r false) (ha : 0 ≤ a) (hr : 0 < r) :
    (∀ j, P.pen.sd1 (P.wts j) 0 (g j) = .fin 0) ↔
      ∀ j, ∃ t, P.pen.alphaMax1 (P.wts j) (g j) = some t ∧ t ≤ a := by
  rw [hp]
  refine forall_congr' (fun j => ?_)
  have h := C16.l1l2_zero_score_iff a r (g j) ha hr
  have e : (SepPen.l1l2 a r false).sd1 (P.wts j) 0 (g j) = (SepPen.l1l2 a r false).sd1 1 0 (g j) := rfl
  rw [e, h]
  simp [SepPen.alphaMax1, sabs_eq]

/-- the same with the maximum over the features (`p > 0`): `alpha ≥ max_j t_j` -/
theorem forall_le_iff_sup' [NeZero p] (t : Fin p → ℝ) (a : ℝ) :
    (∀ j, t j ≤ a) ↔ Finset.univ.sup' Finset.univ_nonempty t ≤ a := by
  rw [Finset.sup'_le_iff]
  simp

/-- `w = 0` satisfies the coefficient part of the certificate with tolerance `0`, i.e. minus the
    gradient at the null model is a regular sub-gradient of every penalty term, iff all scores at
    zero vanish (and then iff `alpha ≥ alpha_max` by the theorems above) -/
theorem null_certificate_iff (P : CDProb ℝ n p) (b : ℝ) (hok : ∀ j, LevelOK P.pen (P.wts j)) :
    (∀ j, ∃ g, IsRegSubgrad (pen P.pen (P.wts j)) 0 g ∧ |(-(nullGrad P b j)) - g| ≤ 0) ↔
      ∀ j, P.pen.sd1 (P.wts j) 0 (nullGrad P b j) = .fin 0 := by
  refine forall_congr' (fun j => ?_)
  rw [C08.score_zero_iff_stationary _ _ _ _ (isDist_of_levelOK P.pen (P.wts j) 0 (nullGrad P b j) (hok j))]
  constructor
  · rintro ⟨g, hg, hd⟩
    have : -(nullGrad P b j) - g = 0 := abs_eq_zero.1 (le_antisymm hd (abs_nonneg _))
    have e : g = -(nullGrad P b j) := by linarith
    rw [← e]; exact hg
  · intro h
    exact ⟨_, h, by simp⟩

/-- Lasso, in one statement: the null coefficients satisfy the optimality certificate with tolerance
    `0` (given the intercept `b`) iff `alpha ≥ |g_j|` for all `j` -/
theorem null_certificate_iff_l1 (P : CDProb ℝ n p) (a b : ℝ) (hp : P.pen = .l1 a false) (ha : 0 ≤ a) :
    (∀ j, ∃ g, IsRegSubgrad (pen P.pen (P.wts j)) 0 g ∧ |(-(nullGrad P b j)) - g| ≤ 0) ↔
      ∀ j, |nullGrad P b j| ≤ a := by
  rw [null_certificate_iff P b (fun j => by rw [hp]; exact ha)]
  exact null_scores_iff P _ (fun _ => a) (fun j => by rw [hp]; rfl)

/-! ### 2. below `alpha_max` the null coefficients are not a solution -/

/-- a coordinate whose score exceeds `tol` refutes the certificate -/
theorem no_certificate_of_score (P : CDProb ℝ n p) (w : Fin p → ℝ) (b tol d : ℝ) (j : Fin p)
    (hpen : IsDistToSubdiff (pen P.pen (P.wts j)) (w j)
      (P.df.gradScalar P.X P.sw P.y (linPred P w b) j) (.fin d))
    (h : tol < d) : ¬ Certificate P w b tol := by
  rintro ⟨hc, _⟩
  obtain ⟨g, hg, hd⟩ := hc j
  have := hpen.2 g hg
  linarith

/-- if `alpha·level_j < |g_j|` for some feature, no point with null coefficients satisfies the
    certificate with a tolerance below the excess `|g_j| − alpha·level_j` -/
theorem below_alpha_max_not_null (P : CDProb ℝ n p) (b tol lvl : ℝ) (j : Fin p)
    (hl : level P.pen (P.wts j) = some lvl) (hok : LevelOK P.pen (P.wts j))
    (h : tol < |nullGrad P b j| - lvl) : ¬ Certificate P (fun _ => 0) b tol := by
  have hd := isDist_of_levelOK P.pen (P.wts j) 0 (nullGrad P b j) hok
  rw [sd1_zero_of_level _ _ _ _ hl] at hd
  exact no_certificate_of_score P (fun _ => 0) b tol _ j hd (lt_of_lt_of_le h (le_max_right _ _))

/-- the reported criterion dominates every coordinate score -/
theorem stopCrit_ge_score (P : CDProb ℝ n p) (s : CDState ℝ n p) (c : ℝ)
    (hstop : P.stopCrit false s = .fin c) (j : Fin p) :
    ∃ d, P.pen.sd1 (P.wts j) (s.w j) (P.df.gradScalar P.X P.sw P.y s.Xw j) = .fin d ∧ d ≤ c := by
  unfold CDProb.stopCrit at hstop
  dsimp only at hstop
  obtain ⟨cm, io, h1, _, h3⟩ := CDA.extMax_fin hstop
  obtain ⟨_, hall⟩ := CDA.foldl_max_fin p _ 0 cm h1
  obtain ⟨d, hd, hdc⟩ := hall j
  simp only [CDProb.score, CDProb.grad, mat_eq, Bool.false_eq_true, if_false] at hd
  exact ⟨d, hd, hdc.trans (by rw [h3]; exact le_max_left _ _)⟩

/-- hence a solver that stops with criterion `c` below the excess of feature `j` returns `w_j ≠ 0` -/
theorem stop_below_alpha_max_nonzero (P : CDProb ℝ n p) (s : CDState ℝ n p) (c lvl : ℝ) (j : Fin p)
    (hl : level P.pen (P.wts j) = some lvl)
    (hstop : P.stopCrit false s = .fin c)
    (hc : c < |P.df.gradScalar P.X P.sw P.y s.Xw j| - lvl) : s.w j ≠ 0 := by
  intro h0
  obtain ⟨d, hd, hdc⟩ := stopCrit_ge_score P s c hstop j
  rw [h0, sd1_zero_of_level _ _ _ _ hl, Red.fin_eq_iff] at hd
  have := le_max_right 0 (|P.df.gradScalar P.X P.sw P.y s.Xw j| - lvl)
  linarith

/-! ### 3. the criterion accounts for the intercept -/

/-- with `fit_intercept`, the reported criterion (either strategy) is at least the size of the
    pending intercept update: convergence cannot be reported before the intercept is optimal within
    the tolerance -/
theorem stop_requires_intercept_optimal (P : CDProb ℝ n p) (s : CDState ℝ n p) (fp : Bool) (c : ℝ)
    (hfit : P.fitInt = true) (hstop : P.stopCrit fp s = .fin c) :
    |P.df.interceptStep P.sw P.y s.Xw| ≤ c := by
  unfold CDProb.stopCrit at hstop
  dsimp only at hstop
  obtain ⟨cm, io, _, h2, h3⟩ := CDA.extMax_fin hstop
  simp only [Ext.fin.injEq] at h2
  rw [h3, ← h2]
  simp only [CDProb.interceptOpt, hfit, if_true, sabs_eq]
  exact le_max_right _ _

end Skglm.C16Run
