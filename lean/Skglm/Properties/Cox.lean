import Skglm.Model.Cox
import Skglm.Real
/-
  The O(n) sweeps of the Cox datafit compute the risk-set sums they stand for, and the Breslow
  value is the documented negative log partial likelihood.
-/
namespace Skglm.CoxP
open Skglm Skglm.Cox
variable {n : Nat}

/-- `T` is the partition of the samples by occurrence time, in ascending order -/
structure TimeGroups (tm : Fin n → ℝ) (T : List (List (Fin n))) : Prop where
  nodup : ∀ g ∈ T, g.Nodup
  cover : ∀ i, ∃ g ∈ T, i ∈ g
  within : ∀ g ∈ T, ∀ a ∈ g, ∀ b ∈ g, tm a = tm b
  across : T.Pairwise (fun g g' => ∀ a ∈ g, ∀ b ∈ g', tm a < tm b)

/-- the tie groups of uncensored samples: no repetition, pairwise disjoint -/
structure DisjGroups (H : List (List (Fin n))) : Prop where
  nodup : ∀ g ∈ H, g.Nodup
  disj : H.Pairwise List.Disjoint

/-! ### list sums -/

theorem foldl_add_eq (g : List (Fin n)) (v : Fin n → ℝ) (a : ℝ) :
    g.foldl (fun acc i => acc + v i) a = a + (g.map v).sum := by
  induction g generalizing a with
  | nil => simp
  | cons x g ih => simp only [List.foldl_cons, List.map_cons, List.sum_cons]; rw [ih]; ring

theorem lsum_eq (g : List (Fin n)) (v : Fin n → ℝ) : lsum g v = (g.map v).sum :=
  (foldl_add_eq g v 0).trans (zero_add _)

theorem ind_sum_all (g : List (Fin n)) (q : Fin n → Prop) [DecidablePred q] (v : Fin n → ℝ)
    (h : ∀ j ∈ g, q j) : (g.map (fun j => if q j then v j else 0)).sum = (g.map v).sum := by
  congr 1
  exact List.map_congr_left (fun j hj => if_pos (h j hj))

theorem ind_sum_none (g : List (Fin n)) (q : Fin n → Prop) [DecidablePred q] (v : Fin n → ℝ)
    (h : ∀ j ∈ g, ¬ q j) : (g.map (fun j => if q j then v j else 0)).sum = 0 := by
  have : g.map (fun j => if q j then v j else 0) = g.map (fun _ => (0 : ℝ)) :=
    List.map_congr_left (fun j hj => if_neg (h j hj))
  rw [this]; simp

theorem sum_list_eq_univ (l : List (Fin n)) (hn : l.Nodup) (hc : ∀ i, i ∈ l) (f : Fin n → ℝ) :
    (l.map f).sum = ∑ i, f i := by
  rw [← List.sum_toFinset f hn]
  congr 1
  ext i; simp [hc i]

/-! ### the cumulative sweeps -/

/-- a sweep over groups with constant, strictly increasing keys leaves in entry `i` the sum of the
    entries whose key is at most that of `i` -/
theorem sweep_spec (key : Fin n → ℝ) (v : Fin n → ℝ) (L : List (List (Fin n)))
    (hwithin : ∀ g ∈ L, ∀ a ∈ g, ∀ b ∈ g, key a = key b)
    (hacross : L.Pairwise (fun g g' => ∀ a ∈ g, ∀ b ∈ g', key a < key b))
    (c0 : ℝ) (out0 : Fin n → ℝ) (i : Fin n) :
    (L.foldl (sweepStep v) (c0, out0)).2 i
      = if i ∈ L.flatten then
          c0 + (L.flatten.map (fun j => if key j ≤ key i then v j else 0)).sum
        else out0 i := by
  induction L generalizing c0 out0 with
  | nil => simp
  | cons g L ih =>
    rw [List.pairwise_cons] at hacross
    obtain ⟨hg, hL⟩ := hacross
    have hw' : ∀ g' ∈ L, ∀ a ∈ g', ∀ b ∈ g', key a = key b :=
      fun g' hg' => hwithin g' (List.mem_cons_of_mem _ hg')
    simp only [List.foldl_cons, List.flatten_cons, List.mem_append, List.map_append,
      List.sum_append]
    have hstep : sweepStep v (c0, out0) g
        = (c0 + lsum g v, mat (fun i => if i ∈ g then c0 + lsum g v else out0 i)) := rfl
    rw [hstep, ih hw' hL]
    by_cases hiL : i ∈ L.flatten
    · -- `i` in a later group: every entry of `g` has a smaller key
      rw [if_pos hiL, if_pos (Or.inr hiL)]
      obtain ⟨g', hg', hig'⟩ := List.mem_flatten.1 hiL
      rw [ind_sum_all g (fun j => key j ≤ key i) v (fun j hj => (hg g' hg' j hj i hig').le),
        lsum_eq]
      ring
    · rw [if_neg hiL]
      by_cases hig : i ∈ g
      · rw [if_pos (Or.inl hig)]
        simp only [mat_eq, if_pos hig]
        rw [ind_sum_all g (fun j => key j ≤ key i) v
            (fun j hj => (hwithin g (List.mem_cons_self ..) j hj i hig).le),
          ind_sum_none L.flatten (fun j => key j ≤ key i) v (fun j hj => by
            obtain ⟨g', hg', hjg'⟩ := List.mem_flatten.1 hj
            exact not_le.mpr (hg g' hg' i hig j hjg')),
          lsum_eq]
        ring
      · rw [if_neg (by tauto)]
        simp only [mat_eq, if_neg hig]

theorem TimeGroups.flatten_nodup {tm : Fin n → ℝ} {T : List (List (Fin n))}
    (h : TimeGroups tm T) : T.flatten.Nodup := by
  rw [List.nodup_flatten]
  refine ⟨h.nodup, h.across.imp ?_⟩
  intro g g' hgg' a ha ha'
  exact lt_irrefl _ (hgg' a ha a ha')

theorem TimeGroups.mem_flatten {tm : Fin n → ℝ} {T : List (List (Fin n))}
    (h : TimeGroups tm T) (i : Fin n) : i ∈ T.flatten := by
  obtain ⟨g, hg, hig⟩ := h.cover i
  exact List.mem_flatten.2 ⟨g, hg, hig⟩

/-- the same groups in descending order, keyed by `-tm` -/
theorem TimeGroups.reverse {tm : Fin n → ℝ} {T : List (List (Fin n))} (h : TimeGroups tm T) :
    TimeGroups (fun i => -tm i) T.reverse where
  nodup := fun g hg => h.nodup g (List.mem_reverse.1 hg)
  cover := fun i => by
    obtain ⟨g, hg, hig⟩ := h.cover i
    exact ⟨g, List.mem_reverse.2 hg, hig⟩
  within := fun g hg a ha b hb => by
    rw [h.within g (List.mem_reverse.1 hg) a ha b hb]
  across := by
    rw [List.pairwise_reverse]
    exact h.across.imp (fun hgg' a ha b hb => neg_lt_neg (hgg' b hb a ha))

/-- `_B_T_dot_vec` computes `Σ_{j : tm_j ≤ tm_i} v_j` -/
theorem B_T_dot_vec_eq {tm : Fin n → ℝ} {T : List (List (Fin n))} (hT : TimeGroups tm T)
    (v : Fin n → ℝ) (i : Fin n) :
    B_T_dot_vec T v i = ∑ j, if tm j ≤ tm i then v j else 0 := by
  unfold B_T_dot_vec
  rw [sweep_spec tm v T hT.within hT.across, if_pos (hT.mem_flatten i), zero_add]
  exact sum_list_eq_univ _ hT.flatten_nodup hT.mem_flatten _

/-- `_B_dot_vec` computes the risk-set sums `Σ_{j : tm_j ≥ tm_i} v_j` -/
theorem B_dot_vec_eq {tm : Fin n → ℝ} {T : List (List (Fin n))} (hT : TimeGroups tm T)
    (v : Fin n → ℝ) (i : Fin n) :
    B_dot_vec T v i = ∑ j, if tm i ≤ tm j then v j else 0 := by
  have hR := hT.reverse
  unfold B_dot_vec
  rw [sweep_spec (fun i => -tm i) v T.reverse hR.within hR.across, if_pos (hR.mem_flatten i),
    zero_add, sum_list_eq_univ _ hR.flatten_nodup hR.mem_flatten _]
  exact Finset.sum_congr rfl (fun j _ => by simp only [neg_le_neg_iff])

/-! ### Breslow value -/

/-- `Cox(use_efron=False).value` is the documented negative log partial likelihood
    `(1/n) Σ_i s_i (−u_i + log Σ_{j : tm_j ≥ tm_i} e^{u_j})` -/
theorem cox_value_eq_doc {tm : Fin n → ℝ} {T : List (List (Fin n))} (hT : TimeGroups tm T)
    (H : List (List (Fin n))) (s u : Fin n → ℝ) :
    coxValue false T H s u
      = 1 / (n : ℝ) * ∑ i, s i * (-(u i) +
          Real.log (∑ j, if tm i ≤ tm j then Real.exp (u j) else 0)) := by
  simp only [coxValue, innerLog, Bool.false_eq_true, if_false, mat_eq, dot_eq, scalar_log_eq,
    scalar_exp_eq, nat_eq, B_dot_vec_eq hT]
  rw [← Finset.sum_neg_distrib, ← Finset.sum_add_distrib, one_div, inv_mul_eq_div]
  congr 1
  exact Finset.sum_congr rfl (fun i _ => by ring)

/-- … and `raw_grad` (Breslow) in terms of the same risk-set sums -/
theorem cox_rawGrad_eq {tm : Fin n → ℝ} {T : List (List (Fin n))} (hT : TimeGroups tm T)
    (H : List (List (Fin n))) (s u : Fin n → ℝ) (i : Fin n) :
    coxRawGrad false T H s u i
      = (-(s i) + Real.exp (u i) *
          ∑ k, if tm k ≤ tm i then
            s k / (∑ j, if tm k ≤ tm j then Real.exp (u j) else 0) else 0) / (n : ℝ) := by
  simp only [coxRawGrad, innerLog, Bool.false_eq_true, if_false, mat_eq, scalar_exp_eq, nat_eq,
    B_dot_vec_eq hT, B_T_dot_vec_eq hT]

/-! ### Efron's correction -/

theorem groupAssign_fold_not_mem (val : List (Fin n) → Fin n → ℝ) (L : List (List (Fin n)))
    (out0 : Fin n → ℝ) (i : Fin n) (h : ∀ g ∈ L, i ∉ g) :
    (L.foldl (fun out g => mat (fun i => if i ∈ g then val g i else out i)) out0) i = out0 i := by
  induction L generalizing out0 with
  | nil => rfl
  | cons g L ih =>
    simp only [List.foldl_cons]
    rw [ih _ (fun g' hg' => h g' (List.mem_cons_of_mem _ hg'))]
    simp only [mat_eq, if_neg (h g (List.mem_cons_self ..))]

theorem groupAssign_fold_mem (val : List (Fin n) → Fin n → ℝ) (L : List (List (Fin n)))
    (hd : L.Pairwise List.Disjoint) (out0 : Fin n → ℝ) (g : List (Fin n)) (hg : g ∈ L)
    (i : Fin n) (hi : i ∈ g) :
    (L.foldl (fun out g => mat (fun i => if i ∈ g then val g i else out i)) out0) i
      = val g i := by
  induction L generalizing out0 with
  | nil => cases hg
  | cons h L ih =>
    rw [List.pairwise_cons] at hd
    simp only [List.foldl_cons]
    rcases List.mem_cons.1 hg with rfl | hgL
    · rw [groupAssign_fold_not_mem val L _ i (fun g' hg' hig' => hd.1 g' hg' hi hig')]
      simp only [mat_eq, if_pos hi]
    · exact ih hd.2 _ hgL

theorem posIn_getElem (g : List (Fin n)) (hn : g.Nodup) (k : Nat) (hk : k < g.length) :
    posIn (g[k]) g = k := by
  induction g generalizing k with
  | nil => simp at hk
  | cons a l ih =>
    rw [List.nodup_cons] at hn
    cases k with
    | zero => simp [posIn]
    | succ k =>
      have hk' : k < l.length := by simpa using hk
      have hne : a ≠ l[k] := fun h => hn.1 (h ▸ List.getElem_mem hk')
      simp only [List.getElem_cons_succ, posIn, if_neg hne, ih hn.2 k hk']

/-- `_A_dot_vec`: the entry in position `k` of a tie group of size `m` gets
    `(k/m) · Σ_{j ∈ group} v_j` -/
theorem A_dot_vec_eq {H : List (List (Fin n))} (hH : DisjGroups H) (v : Fin n → ℝ)
    (g : List (Fin n)) (hg : g ∈ H) (k : Nat) (hk : k < g.length) :
    A_dot_vec H v (g[k]) = ((k : ℝ) / (g.length : ℝ)) * (g.map v).sum := by
  unfold A_dot_vec groupAssign
  rw [groupAssign_fold_mem _ H hH.disj _ g hg _ (List.getElem_mem hk),
    posIn_getElem g (hH.nodup g hg) k hk, lsum_eq, nat_eq, nat_eq]
  ring

/-- … and a sample in no tie group (censored) gets `0` -/
theorem A_dot_vec_eq_zero {H : List (List (Fin n))} (v : Fin n → ℝ) (i : Fin n)
    (h : ∀ g ∈ H, i ∉ g) : A_dot_vec H v i = 0 := by
  unfold A_dot_vec groupAssign
  exact groupAssign_fold_not_mem _ H _ i h

theorem fracDotGo_eq (m : Nat) (v : Fin n → ℝ) (l : List (Fin n)) (k : Nat) (acc : ℝ) :
    fracDotGo m v l k acc
      = acc + ∑ t : Fin l.length, v (l.get t) * (((k + t.1 : Nat) : ℝ) / (m : ℝ)) := by
  induction l generalizing k acc with
  | nil => simp [fracDotGo]
  | cons a l ih =>
    simp only [fracDotGo, List.length_cons]
    rw [ih, Fin.sum_univ_succ]
    simp only [List.get_eq_getElem, Fin.val_zero, List.getElem_cons_zero, Fin.val_succ,
      List.getElem_cons_succ, nat_eq, add_zero]
    have : ∀ t : Fin l.length, ((k + 1 + t.1 : Nat) : ℝ) = ((k + (t.1 + 1) : Nat) : ℝ) := by
      intro t; push_cast; ring
    simp only [this]
    ring

/-- `_AT_dot_vec`: every entry of a tie group gets `Σ_k (k/m) · v_{group[k]}` (the transpose of
    `_A_dot_vec`) -/
theorem AT_dot_vec_eq {H : List (List (Fin n))} (hH : DisjGroups H) (v : Fin n → ℝ)
    (g : List (Fin n)) (hg : g ∈ H) (i : Fin n) (hi : i ∈ g) :
    AT_dot_vec H v i = ∑ t : Fin g.length, ((t.1 : ℝ) / (g.length : ℝ)) * v (g.get t) := by
  unfold AT_dot_vec groupAssign
  rw [groupAssign_fold_mem _ H hH.disj _ g hg i hi]
  unfold fracDot
  rw [fracDotGo_eq, zero_add]
  exact Finset.sum_congr rfl (fun t _ => by simp only [zero_add]; ring)

theorem AT_dot_vec_eq_zero {H : List (List (Fin n))} (v : Fin n → ℝ) (i : Fin n)
    (h : ∀ g ∈ H, i ∉ g) : AT_dot_vec H v i = 0 := by
  unfold AT_dot_vec groupAssign
  exact groupAssign_fold_not_mem _ H _ i h

/-- non-vacuity: three samples, two of them tied -/
example : TimeGroups (fun i : Fin 3 => if i = 1 then (1 : ℝ) else 2) [[1], [0, 2]] where
  nodup := by decide
  cover := by decide
  within := by
    intro g hg a ha b hb
    simp only [List.mem_cons, List.mem_nil_iff, or_false] at hg
    rcases hg with rfl | rfl
    · simp only [List.mem_singleton] at ha hb; rw [ha, hb]
    · simp only [List.mem_cons, List.mem_nil_iff, or_false] at ha hb
      rcases ha with rfl | rfl <;> rcases hb with rfl | rfl <;> simp
  across := by
    simp only [List.pairwise_cons, List.mem_cons, List.mem_nil_iff, or_false, List.Pairwise.nil,
      and_true, forall_eq, IsEmpty.forall_iff, implies_true]
    intro b hb
    rcases hb with rfl | rfl <;> simp

end Skglm.CoxP
