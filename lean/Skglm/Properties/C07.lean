import Skglm.Real
import Skglm.Model.Penalties
namespace Skglm
theorem placeholder_C07 : True := trivial
end Skglm
