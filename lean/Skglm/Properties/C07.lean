import Skglm.Spec.Penalties
import Skglm.Proofs.Prox
import Skglm.Proofs.BlockProx
import Skglm.Proofs.ProxScad
import Skglm.Proofs.Prox05
/-
  C07 — proximal operators return a global minimiser of the prox objective.

  Statements only; the lemmas are in `Skglm/Proofs/Prox.lean`, `BlockProx.lean` and `ProxScad.lean`.
  `Spec.ProxLe p wt x s u v` : `u` is at least as good as `v` for `½(·-x)² + s·pen(·)`, where `pen`
  is the documented penalty with the configured positivity / box constraint as an indicator.
-/
namespace Skglm.C07
open Skglm Skglm.Spec

/-- L1 (both positivity settings): soft-thresholding is the prox, for every `x`, every step, every `v`. -/
theorem prox_l1 (a : ℝ) (pos : Bool) (wt x s : ℝ) (h : Admissible (.l1 a pos) wt s) (v : ℝ) :
    ProxLe (.l1 a pos) wt x s ((SepPen.l1 a pos).prox1 wt x s) v := Proofs.prox_l1 a pos wt x s h v

/-- weighted L1, weights included (zero weight = identity, resp. positive part) -/
theorem prox_wl1 (a : ℝ) (pos : Bool) (wt x s : ℝ) (h : Admissible (.wl1 a pos) wt s) (v : ℝ) :
    ProxLe (.wl1 a pos) wt x s ((SepPen.wl1 a pos).prox1 wt x s) v := Proofs.prox_wl1 a pos wt x s h v

/-- elastic net: scaled soft-thresholding -/
theorem prox_l1l2 (a r : ℝ) (pos : Bool) (wt x s : ℝ) (h : Admissible (.l1l2 a r pos) wt s) (v : ℝ) :
    ProxLe (.l1l2 a r pos) wt x s ((SepPen.l1l2 a r pos).prox1 wt x s) v :=
  Proofs.prox_l1l2 a r pos wt x s h v

/-- MCP inside its well-posed step range `s < γ` -/
theorem prox_mcp (a g : ℝ) (pos : Bool) (wt x s : ℝ) (h : Admissible (.mcp a g pos) wt s) (v : ℝ) :
    ProxLe (.mcp a g pos) wt x s ((SepPen.mcp a g pos).prox1 wt x s) v := Proofs.prox_mcp a g pos wt x s h v

/-- weighted MCP inside `wt·s < γ` -/
theorem prox_wmcp (a g : ℝ) (pos : Bool) (wt x s : ℝ) (h : Admissible (.wmcp a g pos) wt s) (v : ℝ) :
    ProxLe (.wmcp a g pos) wt x s ((SepPen.wmcp a g pos).prox1 wt x s) v :=
  Proofs.prox_wmcp a g pos wt x s h v

/-- SCAD inside its documented range (`γ > 2`, `s < γ - 1`): the best of the code's three candidates
    is a global minimiser of `v ↦ ½(v - x)² + s·scad(v)` over ℝ -/
theorem prox_scad (a g : ℝ) (wt x s : ℝ) (h : Admissible (.scad a g) wt s) (v : ℝ) :
    ProxLe (.scad a g) wt x s ((SepPen.scad a g).prox1 wt x s) v := Proofs.prox_scad a g wt x s h v

/-- SCAD, exact range: the step bound `s < γ - 1` and `γ > 2` are *not* needed.  Because the code
    compares its three candidates on the true objective, the returned value is a global minimiser
    for every step `s > 0`, every `a ≥ 0` and every `γ ≥ 1` (for `γ - 1 ≤ s` the objective is concave
    on `[a, aγ]` and the minimiser is `x₁` or `x₃`; the candidate `x₂` is then harmless, at
    `s = γ - 1` under the model's `t / 0 = 0`). -/
theorem prox_scad_any_step (a g : ℝ) (wt x s : ℝ) (hs : 0 < s) (ha : 0 ≤ a) (hg : 1 ≤ g) (v : ℝ) :
    ProxLe (.scad a g) wt x s ((SepPen.scad a g).prox1 wt x s) v :=
  Proofs.prox_scad_of a g wt x s hs ha hg v

/-- the range `γ ≥ 1` of SCAD is sharp: for `γ < 1` the returned value is *not* a minimiser
    (`a = 1, γ = 1/2, x = 1, s = 1/4`: returns `3/4`, objective `7/32`; `v = 9/8` has `25/128`) -/
theorem prox_scad_range_sharp :
    ∃ a g x s v : ℝ, 0 < s ∧ 0 ≤ a ∧ g < 1 ∧
      ¬ ProxLe (.scad a g) 1 x s ((SepPen.scad a g).prox1 1 x s) v := Proofs.prox_scad_range_sharp

/-- box indicator: projection onto `[0, a]` -/
theorem prox_box (a : ℝ) (wt x s : ℝ) (h : Admissible (.box a) wt s) (v : ℝ) :
    ProxLe (.box a) wt x s ((SepPen.box a).prox1 wt x s) v := Proofs.prox_box a wt x s h v

/-- positivity indicator: positive part -/
theorem prox_pos (wt x s : ℝ) (h : Admissible (.pos) wt s) (v : ℝ) :
    ProxLe (.pos) wt x s ((SepPen.pos : SepPen ℝ).prox1 wt x s) v := Proofs.prox_pos wt x s h v

/-- the admissible range of MCP is sharp: at `s ≥ γ` the closed form is *not* a minimiser -/
theorem prox_mcp_range_sharp :
    ∃ a g x s v : ℝ, 0 < s ∧ 0 < g ∧ g ≤ s ∧
      ¬ ProxLe (.mcp a g false) 1 x s ((SepPen.mcp a g false).prox1 1 x s) v := Proofs.prox_mcp_range_sharp

/-! ### group / row proxes: global minimisers over `Fin k → ℝ` for every block size `k` -/

/-- block soft-thresholding is the prox of `u‖·‖₂` -/
theorem prox_block_soft_threshold {k : Nat} (x v : Fin k → ℝ) (u : ℝ) (hu : 0 ≤ u) :
    Proofs.halfSq x (BST0 x u) + u * norm2 (BST0 x u) ≤ Proofs.halfSq x v + u * norm2 v :=
  Proofs.BST0_prox x v u hu

/-- group lasso with group weight, both positivity settings (feasible result, optimal among feasible `v`) -/
theorem prox_group_lasso {k : Nat} (a wg s : ℝ) (pos : Bool) (wf x v : Fin k → ℝ) (ha : 0 ≤ a) (hwg : 0 ≤ wg)
    (hs : 0 < s) (hv : pos = true → ∀ i, 0 ≤ v i) :
    let r := (BlkPen.wgl2 a pos).proxBlk wg wf x s
    (pos = true → ∀ i, 0 ≤ r i) ∧
    Proofs.halfSq x r + s * (a * wg * norm2 r) ≤ Proofs.halfSq x v + s * (a * wg * norm2 v) :=
  Proofs.prox_wgl2 a wg s pos wf x v ha hwg hs hv

/-- L2/1 row penalty -/
theorem prox_l21 {k : Nat} (a s : ℝ) (wf x v : Fin k → ℝ) (ha : 0 ≤ a) (hs : 0 < s) :
    let r := (BlkPen.l21 a).proxBlk 1 wf x s
    Proofs.halfSq x r + s * (a * norm2 r) ≤ Proofs.halfSq x v + s * (a * norm2 v) :=
  Proofs.prox_l21 a s wf x v ha hs

/-- sparse group lasso, with the weights of the group's own features -/
theorem prox_sparse_group_lasso {k : Nat} (a wg s : ℝ) (wf x v : Fin k → ℝ) (ha : 0 ≤ a) (hwg : 0 ≤ wg)
    (hs : 0 < s) (hwf : ∀ i, 0 ≤ wf i) :
    let r := (BlkPen.wl1gl2 a).proxBlk wg wf x s
    Proofs.halfSq x r + s * (a * (wg * norm2 r + ∑ i, wf i * |r i|)) ≤
      Proofs.halfSq x v + s * (a * (wg * norm2 v + ∑ i, wf i * |v i|)) :=
  Proofs.prox_wl1gl2 a wg s wf x v ha hwg hs hwf

/-- block MCP inside its well-posed range, zero row included -/
theorem prox_block_mcp {k : Nat} (a g s : ℝ) (wf x v : Fin k → ℝ) (ha : 0 ≤ a) (hg : 0 < g) (hs : 0 < s)
    (hsg : s < g) :
    let r := (BlkPen.bmcp a g).proxBlk 1 wf x s
    Proofs.halfSq x r + s * Spec.mcp a g (norm2 r) ≤ Proofs.halfSq x v + s * Spec.mcp a g (norm2 v) :=
  Proofs.prox_bmcp a g s wf x v ha hg hs hsg

/-- block SCAD (radial reduction to `prox_SCAD` on the norm), zero row included; same exact range
    as the scalar case: every step `s > 0`, `a ≥ 0`, `γ ≥ 1` (in particular `γ > 2`, `s < γ - 1`) -/
theorem prox_block_scad {k : Nat} (a g s : ℝ) (wf x v : Fin k → ℝ) (ha : 0 ≤ a) (hg : 1 ≤ g) (hs : 0 < s) :
    let r := (BlkPen.bscad a g).proxBlk 1 wf x s
    Proofs.halfSq x r + s * Spec.scad a g (norm2 r) ≤ Proofs.halfSq x v + s * Spec.scad a g (norm2 v) :=
  Proofs.prox_bscad a g s wf x v ha hg hs

/-- non-vacuity: a concrete admissible SCAD configuration where the *middle* candidate wins -/
example : Admissible (.scad (1:ℝ) 3) 1 1 ∧ (SepPen.scad (1:ℝ) 3).prox1 1 (5 / 2) 1 = 2 := by
  constructor
  · simp [Admissible]; norm_num
  · simp [SepPen.prox1, prox_SCAD, pen_SCAD, sabs_eq, smax_eq, sgn]; norm_num

/-- non-vacuity: a concrete admissible MCP configuration with a non-trivial prox value -/
example : Admissible (.mcp (1:ℝ) 3 false) 1 1 ∧ (SepPen.mcp (1:ℝ) 3 false).prox1 1 2 1 = 3 / 2 := by
  constructor
  · simp [Admissible]
  · simp [SepPen.prox1, prox_MCP, sabs_eq, sgn]; norm_num

/-! ### L0.5 (`prox_05`): partial. The full statement — `prox_05 x u` is a global minimiser of
    `z ↦ ½(z-x)² + u√|z|` — is NOT proved (the comparison of the stationary value with `z = 0` at the
    threshold is observed by the brute-force oracle only). What is proved for every real `x`:
    exact zero below the threshold, a shrinkage factor in `[1/3, 1]` at or above it (sign kept, never
    enlarged, non-zero, finite at zero input), and first-order stationarity of the returned value. -/

/-- the L0.5 penalty's prox is `prox_05` with `u = α·step`; below `(3/2)u^{2/3}` it is exactly zero -/
theorem prox_l05_partial_below (a x s : ℝ) (h : |x| < (3 : ℝ) / 2 * (a * s) ^ ((2 : ℝ) / 3)) :
    (SepPen.l05 a).prox1 1 x s = 0 := Proofs.prox_05_below x (a * s) h

/-- at or above the threshold: `x` times a factor in `[1/3, 1]` -/
theorem prox_l05_partial_above (a x s : ℝ) (hu : 0 ≤ a * s)
    (h : ¬ |x| < (3 : ℝ) / 2 * (a * s) ^ ((2 : ℝ) / 3)) :
    (SepPen.l05 a).prox1 1 x s = x * Proofs.factor05 x (a * s) ∧
      (1 : ℝ) / 3 ≤ Proofs.factor05 x (a * s) ∧ Proofs.factor05 x (a * s) ≤ 1 :=
  ⟨Proofs.prox_05_above x (a * s) h, Proofs.factor05_bounds x (a * s) hu⟩

/-- shrinkage and sign, every real input, zero input included -/
theorem prox_l05_partial_shrinks (x u : ℝ) (hu : 0 ≤ u) :
    |prox_05 x u| ≤ |x| ∧ 0 ≤ prox_05 x u * x := Proofs.prox_05_shrinks x u hu

theorem prox_l05_partial_zero_input (u : ℝ) (hu : 0 ≤ u) : prox_05 (0 : ℝ) u = 0 := Proofs.prox_05_zero u hu

/-- the support is decided by the threshold alone -/
theorem prox_l05_partial_support (x u : ℝ) (hu : 0 < u) (h : ¬ |x| < (3 : ℝ) / 2 * u ^ ((2 : ℝ) / 3)) :
    prox_05 x u ≠ 0 := Proofs.prox_05_ne_zero x u hu h

/-- the returned non-zero value is a critical point of the prox objective (`x > 0`; `cos 3θ` identity) -/
theorem prox_l05_partial_stationary (x u : ℝ) (hx : 0 < x) (hu : 0 < u)
    (h : ¬ |x| < (3 : ℝ) / 2 * u ^ ((2 : ℝ) / 3)) :
    prox_05 x u - x + u / (2 * Real.sqrt (prox_05 x u)) = 0 := Proofs.prox_05_stationary x u hx hu h

/-- block L0.5 (`L2_05`, `prox_block_2_05`): every coordinate shrunk, never enlarged or flipped, zero block included -/
theorem prox_l2_05_partial_shrinks {n : Nat} (x : Fin n → ℝ) (u : ℝ) (hu : 0 ≤ u) (i : Fin n) :
    |prox_block_2_05 x u i| ≤ |x i| ∧ 0 ≤ prox_block_2_05 x u i * x i := Proofs.prox_block_2_05_shrinks x u hu i

/-- non-vacuity: `x = 3, u = 1` is above the threshold `3/2` -/
example : ¬ |(3:ℝ)| < (3 : ℝ) / 2 * (1:ℝ) ^ ((2 : ℝ) / 3) := by norm_num


end Skglm.C07
