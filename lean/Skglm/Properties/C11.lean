import Skglm.Spec.DocObjectives
import Skglm.Proofs.Datafits
import Skglm.Properties.C01
/-
  C11 — the estimators plumb their arguments into the documented problem: the objective of the
  problem each `fit` builds (`Est.problem`, read through `trueObj` of `Skglm/Spec/Solver.lean`)
  is the objective of the class docstring (`docObjective`), at every feasible point.
-/
namespace Skglm.C11
open Skglm Skglm.Spec Skglm.Proofs
variable {n p : Nat}

/-! ### the documented penalty at a feasible coefficient -/

private theorem getD_l1 {a : ℝ} {pos : Bool} {wt u : ℝ} (h : (pen (.l1 a pos) wt u).isSome) :
    (pen (.l1 a pos) wt u).getD 0 = a * |u| := by
  unfold pen at h ⊢; split_ifs at h ⊢ with hc
  · simp at h
  · rfl

private theorem getD_wl1 {a : ℝ} {pos : Bool} {wt u : ℝ} (h : (pen (.wl1 a pos) wt u).isSome) :
    (pen (.wl1 a pos) wt u).getD 0 = a * wt * |u| := by
  unfold pen at h ⊢; split_ifs at h ⊢ with hc
  · simp at h
  · rfl

private theorem getD_l1l2 {a r : ℝ} {pos : Bool} {wt u : ℝ}
    (h : (pen (.l1l2 a r pos) wt u).isSome) :
    (pen (.l1l2 a r pos) wt u).getD 0 = a * (r * |u| + (1 - r) * u ^ 2 / 2) := by
  unfold pen at h ⊢; split_ifs at h ⊢ with hc
  · simp at h
  · rfl

private theorem getD_mcp {a g : ℝ} {pos : Bool} {wt u : ℝ} (h : (pen (.mcp a g pos) wt u).isSome) :
    (pen (.mcp a g pos) wt u).getD 0 = mcp a g u := by
  unfold pen at h ⊢; split_ifs at h ⊢ with hc
  · simp at h
  · rfl

private theorem getD_wmcp {a g : ℝ} {pos : Bool} {wt u : ℝ}
    (h : (pen (.wmcp a g pos) wt u).isSome) :
    (pen (.wmcp a g pos) wt u).getD 0 = wt * mcp a g u := by
  unfold pen at h ⊢; split_ifs at h ⊢ with hc
  · simp at h
  · rfl

private theorem getD_box {a wt u : ℝ} : (pen (.box a) wt u).getD 0 = 0 := by
  unfold pen
  simp only [SepPen.positive, Bool.false_eq_true, false_and, if_false]
  split_ifs <;> rfl

private theorem isSome_l1_iff {a : ℝ} {pos : Bool} {wt u : ℝ} :
    (pen (.l1 a pos) wt u).isSome = true ↔ ¬ (pos = true ∧ u < 0) := by
  unfold pen
  by_cases hc : pos = true ∧ u < 0
  · rw [if_pos (show (SepPen.l1 a pos).positive = true ∧ u < 0 from hc)]; simp [hc]
  · rw [if_neg (show ¬ ((SepPen.l1 a pos).positive = true ∧ u < 0) from hc)]; simp [hc]

private theorem isSome_l1l2_iff {a r : ℝ} {pos : Bool} {wt u : ℝ} :
    (pen (.l1l2 a r pos) wt u).isSome = true ↔ ¬ (pos = true ∧ u < 0) := by
  unfold pen
  by_cases hc : pos = true ∧ u < 0
  · rw [if_pos (show (SepPen.l1l2 a r pos).positive = true ∧ u < 0 from hc)]; simp [hc]
  · rw [if_neg (show ¬ ((SepPen.l1l2 a r pos).positive = true ∧ u < 0) from hc)]; simp [hc]

/-- the code-side documented MCP is the docstring's piecewise formula at `x = |t|` -/
theorem mcp_eq_docMcp (a g t : ℝ) : mcp a g t = docMcp a g |t| := by
  unfold mcp docMcp
  rw [sq_abs]

private theorem quad_value (X : Fin n → Fin p → ℝ) (y : Fin n → ℝ) (w : Fin p → ℝ) (b : ℝ)
    (P : CDProb ℝ n p) (hX : P.X = X) :
    (DF.quadratic : DF ℝ).value (fun _ => 1) y (linPred P w b) w = docLeastSquares X y w b := by
  rw [value_eq_doc _ _ _ _ _ (fun _ _ => rfl) (fun _ h => by cases h)]
  simp only [docValue, docLeastSquares, linPred, hX]

/-- **C11**: at every feasible `w` (and with `b = 0` when the estimator fits no intercept), the
    objective of the problem built by `fit` is the objective of the class docstring. -/
theorem plumb_obj_eq_doc (e : Est ℝ) (X : Fin n → Fin p → ℝ) (y : Fin n → ℝ) (wts w : Fin p → ℝ)
    (b : ℝ) (hf : Feasible (e.problem X y wts) w) (hb : e.fitInt = false → b = 0) :
    trueObj (e.problem X y wts) w b = docObjective e X y wts w b := by
  unfold trueObj
  cases e with
  | lasso a pos fi =>
    have hq := quad_value X y w b ((Est.lasso a pos fi).problem X y wts) rfl
    simp only [Est.problem, Est.datafit, Est.penalty, Est.usesWeights, docObjective] at hq hf ⊢
    rw [hq, Finset.mul_sum]
    congr 1
    exact Finset.sum_congr rfl (fun j _ => getD_l1 (hf j))
  | wlasso a hasW pos fi =>
    have hq := quad_value X y w b ((Est.wlasso a hasW pos fi).problem X y wts) rfl
    cases hasW
    · simp only [Est.problem, Est.datafit, Est.penalty, Est.usesWeights, docObjective,
        Bool.false_eq_true, if_false] at hq hf ⊢
      rw [hq, Finset.mul_sum]
      congr 1
      exact Finset.sum_congr rfl (fun j _ => getD_l1 (hf j))
    · simp only [Est.problem, Est.datafit, Est.penalty, Est.usesWeights, docObjective,
        if_true] at hq hf ⊢
      rw [hq, Finset.mul_sum]
      congr 1
      exact Finset.sum_congr rfl (fun j _ => by rw [getD_wl1 (hf j)]; ring)
  | enet a r pos fi =>
    have hq := quad_value X y w b ((Est.enet a r pos fi).problem X y wts) rfl
    simp only [Est.problem, Est.datafit, Est.penalty, Est.usesWeights, docObjective] at hq hf ⊢
    rw [hq, Finset.mul_sum, Finset.mul_sum, add_assoc, ← Finset.sum_add_distrib]
    congr 1
    exact Finset.sum_congr rfl (fun j _ => by rw [getD_l1l2 (hf j)]; ring)
  | mcpreg a g hasW pos fi =>
    have hq := quad_value X y w b ((Est.mcpreg a g hasW pos fi).problem X y wts) rfl
    cases hasW
    · simp only [Est.problem, Est.datafit, Est.penalty, Est.usesWeights, docObjective,
        Bool.false_eq_true, if_false] at hq hf ⊢
      rw [hq]
      congr 1
      exact Finset.sum_congr rfl (fun j _ => by rw [getD_mcp (hf j), mcp_eq_docMcp])
    · simp only [Est.problem, Est.datafit, Est.penalty, Est.usesWeights, docObjective,
        if_true] at hq hf ⊢
      rw [hq]
      congr 1
      exact Finset.sum_congr rfl (fun j _ => by rw [getD_wmcp (hf j), mcp_eq_docMcp])
  | slr a fi =>
    simp only [Est.problem, Est.datafit, Est.penalty, Est.usesWeights, docObjective] at hf ⊢
    rw [value_eq_doc _ _ _ _ _ (fun _ _ => rfl) (fun _ h => by cases h)]
    congr 1
    rw [Finset.mul_sum]
    exact Finset.sum_congr rfl (fun j _ => getD_l1 (hf j))
  | svc C =>
    have hb0 : b = 0 := hb rfl
    subst hb0
    simp only [Est.problem, Est.datafit, Est.penalty, Est.usesWeights, docObjective]
    rw [value_eq_doc _ _ _ _ _ (fun _ _ => rfl) (fun _ h => by cases h)]
    simp only [docValue, linPred, add_zero, getD_box, Finset.sum_const_zero]

/-! ### corollaries -/

/-- `WeightedLasso(weights=None)` builds exactly the problem of `Lasso` (whatever is passed as
    weights) -/
theorem weighted_lasso_without_weights_is_lasso (a : ℝ) (pos fi : Bool) (X : Fin n → Fin p → ℝ)
    (y : Fin n → ℝ) (wts wts' : Fin p → ℝ) :
    (Est.wlasso a false pos fi).problem X y wts = (Est.lasso a pos fi).problem X y wts' := rfl

/-- `MCPRegression(weights=None)` builds the unweighted `MCPenalty` problem: the weights are not
    read -/
theorem mcp_without_weights_ignores_weights (a g : ℝ) (pos fi : Bool) (X : Fin n → Fin p → ℝ)
    (y : Fin n → ℝ) (wts wts' : Fin p → ℝ) :
    (Est.mcpreg a g false pos fi).problem X y wts = (Est.mcpreg a g false pos fi).problem X y wts' :=
  rfl

/-- `ElasticNet(l1_ratio=1)` has the documented objective of `Lasso` -/
theorem enet_ratio_one_is_lasso_doc (a : ℝ) (pos fi : Bool) (X : Fin n → Fin p → ℝ)
    (y : Fin n → ℝ) (wts w : Fin p → ℝ) (b : ℝ) :
    docObjective (Est.enet a 1 pos fi) X y wts w b = docObjective (Est.lasso a pos fi) X y wts w b := by
  simp only [docObjective]; ring

/-- … and the problem it builds has the same objective as the `Lasso` problem at every feasible
    point (the feasible sets coincide) -/
theorem enet_ratio_one_is_lasso (a : ℝ) (pos fi : Bool) (X : Fin n → Fin p → ℝ)
    (y : Fin n → ℝ) (wts w : Fin p → ℝ) (b : ℝ)
    (hf : Feasible ((Est.enet a 1 pos fi).problem X y wts) w) (hb : fi = false → b = 0) :
    Feasible ((Est.lasso a pos fi).problem X y wts) w ∧
    trueObj ((Est.enet a 1 pos fi).problem X y wts) w b
      = trueObj ((Est.lasso a pos fi).problem X y wts) w b := by
  have hf' : Feasible ((Est.lasso a pos fi).problem X y wts) w := by
    intro j
    exact isSome_l1_iff.2 (isSome_l1l2_iff.1 (hf j))
  refine ⟨hf', ?_⟩
  rw [plumb_obj_eq_doc _ X y wts w b hf hb, plumb_obj_eq_doc _ X y wts w b hf' hb]
  exact enet_ratio_one_is_lasso_doc a pos fi X y wts w b

/-- `LinearSVC.coef_` is `Σ_i y_i dual_i X[i, :]` -/
theorem svc_primal_image (X : Fin n → Fin p → ℝ) (ypm dual : Fin n → ℝ) (j : Fin p) :
    svcPrimal X ypm dual j = ∑ i, ypm i * dual i * X i j := by
  simp only [svcPrimal, vsum_eq]

/-- … which is the image of the dual variable under the design `(yX)ᵀ` handed to the solver:
    `coef_ = (yX)ᵀ · dual`, the vector whose squared norm is the first term of the dual objective -/
theorem svc_primal_is_design_image (X : Fin n → Fin p → ℝ) (ypm dual : Fin n → ℝ) (j : Fin p) :
    svcPrimal X ypm dual j = ∑ i, svcDesign X ypm j i * dual i := by
  rw [svc_primal_image]
  exact Finset.sum_congr rfl (fun i _ => by simp only [svcDesign]; ring)

/-- the stopping criterion of the solver is a first-order certificate for the problem built by
    `fit` (instance of `C01.stop_is_certificate`) -/
theorem fit_certificate (e : Est ℝ) (X : Fin n → Fin p → ℝ) (y : Fin n → ℝ) (wts : Fin p → ℝ)
    (s₀ s : CDState ℝ n p) (c tol : ℝ)
    (hc₀ : Consistent (e.problem X y wts) s₀) (h : Reach (e.problem X y wts) s₀ s)
    (hadm : ∀ j, ∃ st, Admissible (e.problem X y wts).pen ((e.problem X y wts).wts j) st)
    (hbox : ∀ a, (e.problem X y wts).pen = .box a → 0 < a ∧ ∀ j, 0 ≤ s.w j ∧ s.w j ≤ a)
    (hstop : (e.problem X y wts).stopCrit false s = .fin c) (hc : c ≤ tol) :
    Certificate (e.problem X y wts) s.w s.b tol := by
  refine C01.stop_is_certificate _ s₀ s c tol hc₀ h hadm hbox ?_ ?_ hstop hc
  · intro a g hp
    cases e <;> simp only [Est.problem, Est.penalty] at hp <;> (try split_ifs at hp) <;> cases hp
  · intro a hp
    cases e <;> simp only [Est.problem, Est.penalty] at hp <;> (try split_ifs at hp) <;>
      rcases hp with hp | hp <;> cases hp

/-- non-vacuity: a Lasso problem, a feasible point, and its documented objective -/
example : Feasible ((Est.lasso (1:ℝ) false true).problem (fun (_ : Fin 1) (_ : Fin 1) => 1)
    (fun _ => 2) (fun _ => 1)) (fun _ => 1) := by
  intro j; simp [Est.problem, Est.penalty, pen, SepPen.positive]

end Skglm.C11
