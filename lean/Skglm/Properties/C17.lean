import Skglm.Proofs.Run
/-
  C17 — reported diagnostics describe the run that happened (AndersonCD).
  The history entry appended at the end of an outer iteration is `objective` of the state at that
  time; on every reachable state from a consistent feasible start this *is* the documented objective
  of `(w, b)` with the intercept unpenalised.  The "one entry per iteration performed" and
  "returned stop_crit is the last one computed" parts are properties of the control flow, validated
  on every run by the event automaton of the correspondence harness.
-/
namespace Skglm.C17
open Skglm Skglm.Spec Skglm.Proofs
variable {n p : Nat}

theorem history_entry_is_true_objective (P : CDProb ℝ n p) (s₀ s : CDState ℝ n p)
    (hc₀ : Consistent P s₀) (hf₀ : Feasible P s₀.w)
    (hadm : ∀ j, Admissible P.pen (P.wts j) (CDProb.stepsize (P.df.lipschitz P.X P.sw j)))
    (hg : ∀ a g pos, P.pen = .mcp a g pos ∨ P.pen = .wmcp a g pos → 0 < g)
    (h : Reach P s₀ s) : P.objective s = .fin (trueObj P s.w s.b) :=
  objective_eq_trueObj P s (reach_consistent P s₀ s hc₀ h) (reach_feasible P s₀ s hf₀ hadm hg h) hg

/-- the solver's penalty value is the documented penalty (constraint as an indicator) -/
theorem penalty_value_is_documented (pn : SepPen ℝ) (wt w : ℝ)
    (hg : ∀ a g pos, pn = .mcp a g pos ∨ pn = .wmcp a g pos → 0 < g) :
    Ext.toOption (pn.pen1 wt w) = pen pn wt w := pen1_eq_spec pn wt w hg

/-- when a run stops on its tolerance the returned value bounds the optimality violation of the
    returned point (C01) -/
theorem stop_value_is_violation_bound (P : CDProb ℝ n p) (s₀ s : CDState ℝ n p) (c : ℝ)
    (hc₀ : Consistent P s₀) (h : Reach P s₀ s)
    (hadm : ∀ j, ∃ st, Admissible P.pen (P.wts j) st)
    (hbox : ∀ a, P.pen = .box a → 0 < a ∧ ∀ j, 0 ≤ s.w j ∧ s.w j ≤ a)
    (hscad : ∀ a g, P.pen = .scad a g → 1 < g)
    (hroot : ∀ a, P.pen = .l05 a ∨ P.pen = .l23 a → 0 < a)
    (hstop : P.stopCrit false s = .fin c) : Certificate P s.w s.b c :=
  reach_stop_certificate P s₀ s c c hc₀ h hadm hbox hscad hroot hstop (le_refl c)

end Skglm.C17
