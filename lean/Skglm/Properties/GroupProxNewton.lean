import Skglm.Model.GroupProxNewton
import Skglm.Proofs.BCD
import Skglm.Properties.C02
/-
  The backtracking line search of the group prox-Newton solver
  (`skglm/solvers/group_prox_newton.py::_backtrack_line_search`, model in
  `Skglm/Model/GroupProxNewton.lean`).

  (a) `gpn_backtrack_consistent`: `Xw = X w + b` is preserved, for any layout whose working-set
      groups list distinct features; `gpn_backtrack_consistent_needs_nodup`: not otherwise.
  (b) `gpn_backtrack_descends_or_fails_partial`: an accepted step strictly decreases the objective
      (convex datafit, any group penalty; layout hypotheses `WsNodup` and `LayoutsAgree` only — the
      groups may be non-contiguous, permuted, overlapping: `stacked_pairing`), or every test
      failed and the LAST TRIAL POINT `s0 + 2^{-fuel} d` is returned (`for … else: pass`).
  (c) negations, with data replayed on the library:
      `gpn_failed_search_can_ascend` (quadratic), `gpn_failed_search_can_ascend_logistic`:
         all 20 tests fail and the objective at the returned point is larger than at the start;
      `gpn_accepts_ascent_on_mismatched_layouts`: the stacked gradient follows the *datafit's*
         `grp_indices`, the move and `n_features_ws` the *penalty's*; if the two list a group in
         different orders the test accepts an ascent step;
      `gpn_initial_grad_ws_misaligned_on_permuted_groups`: the one place where feature indices are
         used as stacked positions is `_solve` (`_slice_array(grad, ws, …)` on the stacked `grad`),
         right iff `grp_indices` is the identity (`gpn_initial_grad_ws_ok_of_identity`).
  Inside `_backtrack_line_search` itself the pairing `grad_ws @ delta_w_ws[:n_features_ws]` is
  position-by-position correct for every layout shared by datafit and penalty, so there is no
  `gpn_accepts_ascent_on_permuted_groups`: its negation is `accepted_step_descends`.
-/
namespace Skglm.GPN
open Skglm Skglm.Spec Skglm.Proofs Skglm.Proofs.BCD Skglm.GrpProb
variable {n p : Nat}

/-! ### stacked vectors and the feature-space direction they encode -/

/-- the feature-space direction encoded by a stacked vector: entry `j` is the sum of the stacked
    entries whose position belongs to feature `j` -/
noncomputable def eff (groups : List (List (Fin p))) : List Nat → List ℝ → Fin p → ℝ
  | [], _ => fun _ => 0
  | g :: ws, rest => fun j =>
      (∑ i : Fin (grpOf groups g).length,
          if (grpOf groups g).get i = j then rest.getD i.1 0 else 0)
        + eff groups ws (rest.drop (grpOf groups g).length) j

theorem sdot_eq (a b : List ℝ) : sdot a b = (List.zipWith (· * ·) a b).sum := by
  unfold sdot
  rw [List.sum_eq_foldl]

theorem zipWith_append_drop {β γ δ : Type} (f : β → γ → δ) :
    ∀ (a a' : List β) (rest : List γ),
      List.zipWith f (a ++ a') rest
        = List.zipWith f a rest ++ List.zipWith f a' (rest.drop a.length)
  | [], a', rest => by simp
  | x :: a, a', [] => by simp
  | x :: a, a', r :: rest => by simp [zipWith_append_drop f a a' rest]

theorem zipWith_take_left {β γ δ : Type} (f : β → γ → δ) :
    ∀ (a : List β) (b : List γ), List.zipWith f a (b.take a.length) = List.zipWith f a b
  | [], b => by simp
  | x :: a, [] => by simp
  | x :: a, y :: b => by simp [zipWith_take_left f a b]

/-- pairing a group's slice with a stacked vector -/
theorem zipWith_group_sum (F : Fin p → ℝ) :
    ∀ (grp : List (Fin p)) (rest : List ℝ),
      (List.zipWith (fun j c => F j * c) grp rest).sum
        = ∑ i : Fin grp.length, F (grp.get i) * rest.getD i.1 0
  | [], rest => by simp
  | x :: grp, [] => by simp
  | x :: grp, r :: rest => by
      have h := Fin.sum_univ_succ (n := grp.length)
        (fun i : Fin (grp.length + 1) => F ((x :: grp).get i) * (r :: rest).getD i.1 0)
      rw [List.zipWith_cons_cons, List.sum_cons, zipWith_group_sum F grp rest]
      refine Eq.trans ?_ h.symm
      simp

theorem group_sum_swap (F : Fin p → ℝ) (grp : List (Fin p)) (c : Fin grp.length → ℝ) :
    ∑ j, F j * (∑ i : Fin grp.length, if grp.get i = j then c i else 0)
      = ∑ i : Fin grp.length, F (grp.get i) * c i := by
  simp only [Finset.mul_sum]
  rw [Finset.sum_comm]
  refine Finset.sum_congr rfl (fun i _ => ?_)
  simp [mul_ite, Finset.sum_ite_eq]

/-- **the stacked pairing is the feature-space pairing**: for any per-feature quantity `F`
    (a gradient, a row of `X`), `Σ_pos F[idx(pos)] · dws[pos] = Σ_j F_j · eff_j` — whatever the
    layout (non-contiguous, permuted, overlapping groups) -/
theorem stacked_pairing (groups : List (List (Fin p))) (F : Fin p → ℝ) :
    ∀ (ws : List Nat) (rest : List ℝ),
      (List.zipWith (fun j c => F j * c) (stackIdx groups ws) rest).sum
        = ∑ j, F j * eff groups ws rest j
  | [], rest => by simp [stackIdx, eff]
  | g :: ws, rest => by
      have h : stackIdx groups (g :: ws) = grpOf groups g ++ stackIdx groups ws := by
        simp [stackIdx]
      rw [h, zipWith_append_drop, List.sum_append, zipWith_group_sum,
        stacked_pairing groups F ws]
      simp only [eff, mul_add, Finset.sum_add_distrib]
      rw [group_sum_swap F (grpOf groups g) (fun i => rest.getD i.1 0)]

/-! ### closed form of the move -/

theorem assign_add (w : Fin p → ℝ) (grp : List (Fin p)) (hnd : grp.Nodup) (t : ℝ)
    (c : Fin grp.length → ℝ) (j : Fin p) :
    GrpProb.assign w grp (fun i => w (grp.get i) + t * c i) j
      = w j + t * ∑ i : Fin grp.length, if grp.get i = j then c i else 0 := by
  have hinj := get_injective hnd
  unfold GrpProb.assign
  by_cases h : ∃ i, grp.get i = j
  · obtain ⟨i, rfl⟩ := h
    rw [assignF_get grp.length grp.get _ w hinj i]
    have : (∑ i' : Fin grp.length, if grp.get i' = grp.get i then c i' else 0) = c i := by
      rw [Finset.sum_eq_single i]
      · rw [if_pos rfl]
      · intro b _ hb; rw [if_neg (fun e => hb (hinj e))]
      · intro h; exact absurd (Finset.mem_univ i) h
    rw [this]
  · rw [not_exists] at h
    rw [assignF_outside grp.length grp.get _ w j h]
    have : (∑ i : Fin grp.length, if grp.get i = j then c i else 0) = 0 := by
      apply Finset.sum_eq_zero
      intro i _
      rw [if_neg (h i)]
    rw [this]; ring

theorem scatter_eq (groups : List (List (Fin p))) (dws : List ℝ) (t : ℝ) :
    ∀ (ws : List Nat) (ptr : Nat) (w : Fin p → ℝ),
      (∀ g ∈ ws, (grpOf groups g).Nodup) →
      gpnScatter groups dws t ws ptr w = fun j => w j + t * eff groups ws (dws.drop ptr) j
  | [], ptr, w, _ => by simp [gpnScatter, eff]
  | g :: ws, ptr, w, hnd => by
      have hg : (grpOf groups g).Nodup := hnd g (List.mem_cons_self ..)
      have hws : ∀ g' ∈ ws, (grpOf groups g').Nodup := fun g' h => hnd g' (List.mem_cons_of_mem _ h)
      unfold gpnScatter
      rw [mat_eq, scatter_eq groups dws t ws _ _ hws]
      funext j
      rw [assign_add w _ hg t (fun i => dws.getD (ptr + i.1) 0) j]
      simp only [eff, List.drop_drop]
      have : ∀ i : Fin (grpOf groups g).length,
          (dws.drop ptr).getD i.1 0 = dws.getD (ptr + i.1) 0 := by
        intro i
        simp [List.getD_eq_getElem?_getD, List.getElem?_drop]
      simp only [this]
      ring

/-- every group of the working set lists distinct features (the groups may be non-contiguous,
    unsorted, and may overlap) -/
def WsNodup (P : GrpProb ℝ n p) (ws : List Nat) : Prop := ∀ g ∈ ws, (grpOf P.groups g).Nodup

/-- the feature-space direction of `d` on the working set `ws` -/
noncomputable def effDir (P : GrpProb ℝ n p) (ws : List Nat) (d : GPNDir ℝ n) : Fin p → ℝ :=
  eff P.groups ws d.dws

theorem CDState.ext' {s t : CDState ℝ n p} (hw : s.w = t.w) (hb : s.b = t.b) (hx : s.Xw = t.Xw) :
    s = t := by
  cases s; cases t; simp_all

/-- with distinct indices inside each group the move is `s + t · (effDir, db, Xd)` -/
theorem moveBy_eq (P : GrpProb ℝ n p) (ws : List Nat) (s : CDState ℝ n p) (d : GPNDir ℝ n) (t : ℝ)
    (hnd : WsNodup P ws) :
    P.gpnMoveBy ws s d t =
      { w := fun j => s.w j + t * effDir P ws d j
        b := if P.fitInt then s.b + t * d.db else s.b
        Xw := fun i => s.Xw i + t * d.Xd i } := by
  apply CDState.ext'
  · simp only [gpnMoveBy]
    rw [scatter_eq P.groups d.dws t ws 0 s.w hnd, List.drop_zero]
    rfl
  · rfl
  · simp only [gpnMoveBy, mat_eq]

theorem moveBy_zero (P : GrpProb ℝ n p) (ws : List Nat) (s : CDState ℝ n p) (d : GPNDir ℝ n)
    (hnd : WsNodup P ws) : P.gpnMoveBy ws s d 0 = s := by
  rw [moveBy_eq P ws s d 0 hnd]
  apply CDState.ext' <;> simp

theorem moveBy_moveBy (P : GrpProb ℝ n p) (ws : List Nat) (s : CDState ℝ n p) (d : GPNDir ℝ n)
    (a b : ℝ) (hnd : WsNodup P ws) :
    P.gpnMoveBy ws (P.gpnMoveBy ws s d a) d b = P.gpnMoveBy ws s d (a + b) := by
  rw [moveBy_eq P ws _ d b hnd, moveBy_eq P ws s d a hnd, moveBy_eq P ws s d (a + b) hnd]
  apply CDState.ext'
  · funext j; simp only; ring
  · simp only; split_ifs <;> ring
  · funext i; simp only; ring

/-! ### (a) consistency -/

/-- what `_descent_direction` maintains: `X_delta_w_ws = Σ_pos delta_w_ws[pos] · X[:, idx(pos)]`
    (`_update_X_delta_w_ws` runs over the stacked positions) `+ delta_intercept` -/
def DirConsistent (P : GrpProb ℝ n p) (ws : List Nat) (d : GPNDir ℝ n) : Prop :=
  ∀ i, d.Xd i = (List.zipWith (fun j c => P.X i j * c) (stackIdx P.groups ws) d.dws).sum
    + (if P.fitInt then d.db else 0)

theorem dirConsistent_iff (P : GrpProb ℝ n p) (ws : List Nat) (d : GPNDir ℝ n) :
    DirConsistent P ws d ↔
      ∀ i, d.Xd i = (∑ j, P.X i j * effDir P ws d j) + (if P.fitInt then d.db else 0) := by
  unfold DirConsistent effDir
  simp only [stacked_pairing]

theorem moveBy_consistent (P : GrpProb ℝ n p) (ws : List Nat) (s : CDState ℝ n p) (d : GPNDir ℝ n)
    (t : ℝ) (hnd : WsNodup P ws) (hs : GConsistent P s) (hd : DirConsistent P ws d) :
    GConsistent P (P.gpnMoveBy ws s d t) := by
  rw [dirConsistent_iff] at hd
  rw [moveBy_eq P ws s d t hnd]
  intro i
  simp only
  rw [hs i, hd i]
  have : ∀ j, P.X i j * (s.w j + t * effDir P ws d j)
      = P.X i j * s.w j + t * (P.X i j * effDir P ws d j) := fun j => by ring
  simp only [this, Finset.sum_add_distrib, ← Finset.mul_sum]
  split_ifs <;> ring

theorem backtrackLoop_consistent (P : GrpProb ℝ n p) (dg : List (List (Fin p))) (ws : List Nat)
    (oldPen : Ext ℝ) (d : GPNDir ℝ n) (hnd : WsNodup P ws) (hd : DirConsistent P ws d)
    (fuel : Nat) (cur : CDState ℝ n p) (step prev : ℝ) (hs : GConsistent P cur) :
    GConsistent P (P.gpnBacktrackLoop dg ws oldPen d fuel cur step prev) := by
  induction fuel generalizing cur step prev with
  | zero => exact hs
  | succ fuel ih =>
    unfold gpnBacktrackLoop
    dsimp only
    have h' := moveBy_consistent P ws cur d (step - prev) hnd hs hd
    split_ifs
    · exact h'
    · exact ih _ _ _ h'

/-- **(a)** the line search keeps `Xw = X w + b`, whatever the budget, the tests and the datafit's
    layout `dg`, as soon as the groups of the working set list distinct features -/
theorem gpn_backtrack_consistent (fuel : Nat) (P : GrpProb ℝ n p) (dg : List (List (Fin p)))
    (ws : List Nat) (s0 : CDState ℝ n p) (d : GPNDir ℝ n) (hnd : WsNodup P ws)
    (hs : GConsistent P s0) (hd : DirConsistent P ws d) :
    GConsistent P (P.gpnBacktrack fuel dg ws s0 d) :=
  backtrackLoop_consistent P dg ws _ d hnd hd fuel s0 1 0 hs

/-! ### (b) an accepted step decreases the objective -/

/-- the datafit's layout and the penalty's layout give the same slice for every group of `ws` -/
def LayoutsAgree (P : GrpProb ℝ n p) (dg : List (List (Fin p))) (ws : List Nat) : Prop :=
  ∀ g ∈ ws, grpOf dg g = grpOf P.groups g

theorem layoutsAgree_self (P : GrpProb ℝ n p) (ws : List Nat) : LayoutsAgree P P.groups ws :=
  fun _ _ => rfl

theorem stackIdx_congr {P : GrpProb ℝ n p} {dg : List (List (Fin p))} {ws : List Nat}
    (h : LayoutsAgree P dg ws) : stackIdx dg ws = stackIdx P.groups ws :=
  List.flatMap_congr h

theorem constructGrad_eq (P : GrpProb ℝ n p) (dg : List (List (Fin p))) (ws : List Nat)
    (Xw : Fin n → ℝ) :
    P.gpnConstructGrad dg ws Xw
      = (stackIdx dg ws).map (fun j => ∑ i, P.X i j * P.df.rawGrad P.sw P.y Xw i) := by
  simp [gpnConstructGrad, vsum_eq]

/-- `grad_ws @ delta_w_ws[:n_features_ws]` is `∇f · effDir` when the two layouts agree on `ws` -/
theorem test_dot (P : GrpProb ℝ n p) (dg : List (List (Fin p))) (ws : List Nat) (d : GPNDir ℝ n)
    (Xw : Fin n → ℝ) (hlay : LayoutsAgree P dg ws) :
    sdot (P.gpnConstructGrad dg ws Xw) (d.dws.take (nFeatWs P.groups ws))
      = ∑ j, (∑ i, P.X i j * P.df.rawGrad P.sw P.y Xw i) * effDir P ws d j := by
  rw [sdot_eq, constructGrad_eq, stackIdx_congr hlay]
  have hl : nFeatWs P.groups ws = ((stackIdx P.groups ws).map
      (fun j => ∑ i, P.X i j * P.df.rawGrad P.sw P.y Xw i)).length := by simp [nFeatWs]
  rw [hl, zipWith_take_left, List.zipWith_map_left]
  exact stacked_pairing P.groups _ ws d.dws

theorem extSub_fin {a b : Ext ℝ} {c : ℝ} (h : CDProb.extSub a b = .fin c) :
    ∃ x y, a = .fin x ∧ b = .fin y ∧ c = x - y := by
  cases a <;> cases b <;> simp [CDProb.extSub] at h
  exact ⟨_, _, rfl, rfl, h.symm⟩

/-- convex datafit without linear term, any group penalty, any layout with distinct indices inside
    each group, datafit and penalty layouts agreeing on `ws`: if the test value is finite and
    negative, the objective is finite at both ends and decreases by at least that much -/
theorem accepted_step_descends (P : GrpProb ℝ n p) (dg : List (List (Fin p))) (ws : List Nat)
    (s0 : CDState ℝ n p) (d : GPNDir ℝ n) (t v : ℝ)
    (hnd : WsNodup P ws) (hlay : LayoutsAgree P dg ws) (hd : DirConsistent P ws d)
    (hsw : ∀ i, 0 ≤ P.sw i) (hN : 0 ≤ P.df.normaliser P.sw)
    (hdelta : ∀ δ, P.df = .huber δ → 0 < δ) (hgamma : P.df = .gamma → ∀ i, 0 ≤ P.y i)
    (hlin : P.df.lin = 0)
    (htest : P.gpnLineSearchTest dg ws s0 d t = .fin v) (hv : v < 0) :
    ∃ a b, P.objective (P.gpnMoveBy ws s0 d t) = .fin a ∧ P.objective s0 = .fin b ∧
      a - b ≤ v ∧ a < b := by
  rw [dirConsistent_iff] at hd
  unfold gpnLineSearchTest gpnLineSearchTestAt at htest
  cases hsub : CDProb.extSub (P.penValue (P.gpnMoveBy ws s0 d t).w) (P.penValue s0.w) with
  | inf => rw [hsub] at htest; simp at htest
  | fin pd =>
    rw [hsub] at htest
    obtain ⟨pn, po, hpn, hpo, hpd⟩ := extSub_fin hsub
    set new := P.gpnMoveBy ws s0 d t with hnew
    set r := P.df.rawGrad P.sw P.y new.Xw with hr
    set E := effDir P ws d with hE
    set dbe : ℝ := if P.fitInt then d.db else 0 with hdbe
    have hval : v = pd + t * (∑ j, (∑ i, P.X i j * r i) * E j) + t * dbe * ∑ i, r i := by
      dsimp only at htest
      rw [test_dot P dg ws d new.Xw hlay] at htest
      cases hfi : P.fitInt with
      | true =>
        rw [hfi] at htest
        simp only [if_true, Ext.fin.injEq, vsum_eq] at htest
        rw [← htest, hdbe, hfi]; simp; exact Or.inl rfl
      | false =>
        rw [hfi] at htest
        simp only [Bool.false_eq_true, if_false, Ext.fin.injEq] at htest
        rw [← htest, hdbe, hfi]; simp; exact Or.inl rfl
    have hconv := C02.value_convex_ineq P.df P.sw P.y new.Xw s0.Xw new.w s0.w hsw hN hdelta hgamma
    rw [hlin, zero_mul, add_zero] at hconv
    have hdiff : ∀ i, s0.Xw i - new.Xw i = -(t * ((∑ j, P.X i j * E j) + dbe)) := by
      intro i
      rw [hnew, moveBy_eq P ws s0 d t hnd]
      simp only [hd i]; ring
    have hswap : ∑ i, r i * (s0.Xw i - new.Xw i)
        = -(t * (∑ j, (∑ i, P.X i j * r i) * E j) + t * dbe * ∑ i, r i) := by
      simp only [hdiff, mul_neg, Finset.sum_neg_distrib]
      congr 1
      have : ∀ i, r i * (t * ((∑ j, P.X i j * E j) + dbe))
          = t * (∑ j, P.X i j * r i * E j) + t * dbe * r i := by
        intro i
        have e : (∑ j, P.X i j * r i * E j) = r i * ∑ j, P.X i j * E j := by
          rw [Finset.mul_sum]; exact Finset.sum_congr rfl (fun j _ => by ring)
        rw [e]; ring
      simp only [this, Finset.sum_add_distrib, ← Finset.mul_sum, Finset.sum_mul]
      congr 2
      rw [Finset.sum_comm]
    rw [hswap] at hconv
    refine ⟨P.df.value P.sw P.y new.Xw new.w + pn, P.df.value P.sw P.y s0.Xw s0.w + po, ?_, ?_,
      ?_, ?_⟩
    · simp only [GrpProb.objective, hpn, Ext.add]
    · simp only [GrpProb.objective, hpo, Ext.add]
    · linarith
    · linarith

/-- with a finite penalty value at the start, the `stop_crit < 0` decision is exactly
    "the test value is finite and negative" -/
theorem accept_iff_test_neg (P : GrpProb ℝ n p) (dg : List (List (Fin p))) (ws : List Nat)
    (s0 : CDState ℝ n p) (d : GPNDir ℝ n) (t po : ℝ) (hpo : P.penValue s0.w = .fin po) :
    P.gpnLineSearchAccept dg ws s0 d t = true ↔
      ∃ v, P.gpnLineSearchTest dg ws s0 d t = .fin v ∧ v < 0 := by
  unfold gpnLineSearchAccept gpnLineSearchAcceptAt gpnLineSearchTest
  rw [hpo]
  dsimp only
  cases h : P.gpnLineSearchTestAt dg ws (Ext.fin po) (P.gpnMoveBy ws s0 d t) d t with
  | inf => simp [Ext.lt]
  | fin x => simp [Ext.lt]

/-! ### what the search returns -/

/-- the cumulated step of the last trial point when every test fails: `prev` with an empty budget,
    `2^{-(m + fuel - 1)}` otherwise (`m` halvings were done before) -/
noncomputable def lastStep (m : Nat) : Nat → ℝ → ℝ
  | 0, prev => prev
  | fuel + 1, _ => 1 / 2 ^ (m + fuel)

theorem backtrackLoop_spec (P : GrpProb ℝ n p) (dg : List (List (Fin p))) (ws : List Nat)
    (s0 : CDState ℝ n p) (d : GPNDir ℝ n) (hnd : WsNodup P ws)
    (fuel : Nat) : ∀ (m : Nat) (cur : CDState ℝ n p) (prev : ℝ),
    cur = P.gpnMoveBy ws s0 d prev →
    (∃ k, m ≤ k ∧ k < m + fuel ∧
        P.gpnBacktrackLoop dg ws (P.penValue s0.w) d fuel cur (1 / 2 ^ m) prev
          = P.gpnMoveBy ws s0 d (1 / 2 ^ k) ∧
        P.gpnLineSearchAccept dg ws s0 d (1 / 2 ^ k) = true ∧
        ∀ k', m ≤ k' → k' < k → P.gpnLineSearchAccept dg ws s0 d (1 / 2 ^ k') = false) ∨
    ((∀ k', m ≤ k' → k' < m + fuel → P.gpnLineSearchAccept dg ws s0 d (1 / 2 ^ k') = false) ∧
      P.gpnBacktrackLoop dg ws (P.penValue s0.w) d fuel cur (1 / 2 ^ m) prev
        = P.gpnMoveBy ws s0 d (lastStep m fuel prev)) := by
  induction fuel with
  | zero =>
    intro m cur prev hcur
    right
    refine ⟨fun k' h1 h2 => absurd h2 (by omega), ?_⟩
    -- `else: pass`: nothing is undone
    unfold gpnBacktrackLoop lastStep
    exact hcur
  | succ fuel ih =>
    intro m cur prev hcur
    have hcur' : P.gpnMoveBy ws cur d (1 / 2 ^ m - prev) = P.gpnMoveBy ws s0 d (1 / 2 ^ m) := by
      rw [hcur, moveBy_moveBy P ws s0 d _ _ hnd]; congr 1; ring
    unfold gpnBacktrackLoop
    dsimp only
    rw [hcur']
    by_cases hacc : P.gpnLineSearchAcceptAt dg ws (P.penValue s0.w)
        (P.gpnMoveBy ws s0 d (1 / 2 ^ m)) d (1 / 2 ^ m) = true
    · rw [if_pos hacc]
      left
      exact ⟨m, le_refl _, by omega, rfl, hacc, fun k' h1 h2 => absurd h2 (by omega)⟩
    · rw [if_neg hacc]
      have hstep : (1 : ℝ) / 2 ^ m / nat 2 = 1 / 2 ^ (m + 1) := by
        have h2 : (nat 2 : ℝ) = 2 := by rw [nat_eq]; norm_num
        rw [h2, pow_succ, div_div]
      rw [hstep]
      have hm : P.gpnLineSearchAccept dg ws s0 d (1 / 2 ^ m) = false := by
        simpa [gpnLineSearchAccept] using hacc
      rcases ih (m + 1) (P.gpnMoveBy ws s0 d (1 / 2 ^ m)) (1 / 2 ^ m) rfl with
        ⟨k, hk1, hk2, hr, hk, hbefore⟩ | ⟨hall, hr⟩
      · left
        refine ⟨k, by omega, by omega, hr, hk, fun k' h1 h2 => ?_⟩
        rcases Nat.eq_or_lt_of_le h1 with h | h
        · rw [← h]; exact hm
        · exact hbefore k' (by omega) h2
      · right
        refine ⟨fun k' h1 h2 => ?_, ?_⟩
        · rcases Nat.eq_or_lt_of_le h1 with h | h
          · rw [← h]; exact hm
          · exact hall k' (by omega) (by omega)
        · rw [hr]
          congr 1
          cases fuel with
          | zero => simp [lastStep]
          | succ f =>
            simp only [lastStep]
            congr 2
            omega

/-- the line search with budget `fuel + 1` returns either the first accepted step `2^{-k}`
    (`k ≤ fuel`), or — no step accepted — the LAST TRIAL POINT `s0 + 2^{-fuel} d`
    (`for … else: pass`) -/
theorem gpn_backtrack_returns (fuel : Nat) (P : GrpProb ℝ n p) (dg : List (List (Fin p)))
    (ws : List Nat) (s0 : CDState ℝ n p) (d : GPNDir ℝ n) (hnd : WsNodup P ws) :
    (∃ k, k ≤ fuel ∧ P.gpnBacktrack (fuel + 1) dg ws s0 d = P.gpnMoveBy ws s0 d (1 / 2 ^ k) ∧
        P.gpnLineSearchAccept dg ws s0 d (1 / 2 ^ k) = true ∧
        ∀ k', k' < k → P.gpnLineSearchAccept dg ws s0 d (1 / 2 ^ k') = false) ∨
    ((∀ k', k' ≤ fuel → P.gpnLineSearchAccept dg ws s0 d (1 / 2 ^ k') = false) ∧
      P.gpnBacktrack (fuel + 1) dg ws s0 d = P.gpnMoveBy ws s0 d (1 / 2 ^ fuel)) := by
  have h := backtrackLoop_spec P dg ws s0 d hnd (fuel + 1) 0 s0 0 (moveBy_zero P ws s0 d hnd).symm
  simp only [pow_zero, div_one, zero_add, Nat.zero_le, true_implies, lastStep] at h
  unfold gpnBacktrack
  rcases h with ⟨k, _, hk2, hr, hk, hb⟩ | ⟨hall, hr⟩
  · left
    exact ⟨k, by omega, hr, hk, fun k' h' => hb k' h'⟩
  · right
    exact ⟨fun k' h' => hall k' (by omega), hr⟩

/-- with an empty budget the search does not move -/
theorem gpn_backtrack_zero (P : GrpProb ℝ n p) (dg : List (List (Fin p))) (ws : List Nat)
    (s0 : CDState ℝ n p) (d : GPNDir ℝ n) : P.gpnBacktrack 0 dg ws s0 d = s0 := rfl

/-- **(b) the line search descends, or fails and stays at its last trial point.**
    Hypotheses on the group layout for the "accepted ⇒ descent" half: the groups of the working
    set list distinct features (`WsNodup`), and `_construct_grad` (datafit's layout `dg`) reads the
    same slices as the move (penalty's layout) on the working set (`LayoutsAgree`).  Nothing else:
    the groups need not be contiguous, in natural order, sorted or disjoint — the stacked gradient
    and the stacked direction are built by the same loop nest, so they pair position by position.
    For a convex datafit, with a finite penalty value at the start and `X_delta_w_ws` as
    `_descent_direction` maintains it:
      * either the point returned is `s0 + 2^{-k} d` for the first accepted `k ≤ fuel` and the
        objective is strictly smaller there,
      * or every one of the `fuel + 1` tests failed and the point returned is the last trial
        point `s0 + 2^{-fuel} d` — about which nothing is guaranteed
        (`gpn_failed_search_can_ascend`). -/
theorem gpn_backtrack_descends_or_fails_partial (fuel : Nat) (P : GrpProb ℝ n p)
    (dg : List (List (Fin p))) (ws : List Nat) (s0 : CDState ℝ n p) (d : GPNDir ℝ n) (po : ℝ)
    (hpo : P.penValue s0.w = .fin po)
    (hnd : WsNodup P ws) (hlay : LayoutsAgree P dg ws) (hd : DirConsistent P ws d)
    (hsw : ∀ i, 0 ≤ P.sw i) (hN : 0 ≤ P.df.normaliser P.sw)
    (hdelta : ∀ δ, P.df = .huber δ → 0 < δ) (hgamma : P.df = .gamma → ∀ i, 0 ≤ P.y i)
    (hlin : P.df.lin = 0) :
    (∃ k a b, k ≤ fuel ∧ P.gpnBacktrack (fuel + 1) dg ws s0 d = P.gpnMoveBy ws s0 d (1 / 2 ^ k) ∧
        P.objective (P.gpnBacktrack (fuel + 1) dg ws s0 d) = .fin a ∧ P.objective s0 = .fin b ∧
        a < b) ∨
    ((∀ k', k' ≤ fuel → P.gpnLineSearchAccept dg ws s0 d (1 / 2 ^ k') = false) ∧
      P.gpnBacktrack (fuel + 1) dg ws s0 d = P.gpnMoveBy ws s0 d (1 / 2 ^ fuel)) := by
  rcases gpn_backtrack_returns fuel P dg ws s0 d hnd with ⟨k, hk, hr, hacc, _⟩ | h
  · left
    obtain ⟨v, hv, hneg⟩ := (accept_iff_test_neg P dg ws s0 d _ po hpo).1 hacc
    obtain ⟨a, b, ha, hb, _, hab⟩ := accepted_step_descends P dg ws s0 d _ v hnd hlay hd hsw hN
      hdelta hgamma hlin hv hneg
    exact ⟨k, a, b, hk, hr, by rw [hr]; exact ha, hb, hab⟩
  · right; exact h

/-- **never-ascends fails to follow**: what *does* follow from (b) is only this — if some step is
    accepted within the budget the objective strictly decreases -/
theorem gpn_backtrack_descends_if_some_step_accepted (fuel : Nat) (P : GrpProb ℝ n p)
    (dg : List (List (Fin p))) (ws : List Nat) (s0 : CDState ℝ n p) (d : GPNDir ℝ n) (po : ℝ)
    (hpo : P.penValue s0.w = .fin po)
    (hnd : WsNodup P ws) (hlay : LayoutsAgree P dg ws) (hd : DirConsistent P ws d)
    (hsw : ∀ i, 0 ≤ P.sw i) (hN : 0 ≤ P.df.normaliser P.sw)
    (hdelta : ∀ δ, P.df = .huber δ → 0 < δ) (hgamma : P.df = .gamma → ∀ i, 0 ≤ P.y i)
    (hlin : P.df.lin = 0)
    (hsome : ∃ k, k ≤ fuel ∧ P.gpnLineSearchAccept dg ws s0 d (1 / 2 ^ k) = true) :
    Ext.lt (P.objective (P.gpnBacktrack (fuel + 1) dg ws s0 d)) (P.objective s0) = true := by
  rcases gpn_backtrack_descends_or_fails_partial fuel P dg ws s0 d po hpo hnd hlay hd hsw hN hdelta
    hgamma hlin with ⟨k, a, b, _, _, ha, hb, hab⟩ | ⟨hall, _⟩
  · rw [ha, hb]; simpa [Ext.lt] using hab
  · obtain ⟨k, hk, hacc⟩ := hsome
    rw [hall k hk] at hacc; cases hacc

/-! ### concrete data -/

/-- list form of the feature-space direction, convenient on concrete data -/
theorem eff_eq_list (groups : List (List (Fin p))) (ws : List Nat) (rest : List ℝ) (j : Fin p) :
    eff groups ws rest j
      = (List.zipWith (fun x c => (if x = j then 1 else 0) * c) (stackIdx groups ws) rest).sum := by
  rw [stacked_pairing groups (fun x => if x = j then 1 else 0) ws rest]
  simp

/-- the hypotheses on the layout allow non-contiguous, unsorted and overlapping groups -/
example : ∀ P : GrpProb ℝ 1 3, P.groups = [[2, 0], [1, 2]] →
    WsNodup P [1, 0] ∧ LayoutsAgree P P.groups [1, 0] := by
  intro P h
  refine ⟨?_, layoutsAgree_self P _⟩
  intro g hg
  rw [h]
  simp only [List.mem_cons, List.not_mem_nil, or_false] at hg
  rcases hg with rfl | rfl <;> simp [grpOf]

/-! #### A. one permuted group `[1, 0]`, `X = I₂`, quadratic datafit, group lasso

    `½·¼‖y − Xw‖²`‐type objective `((y₀ − w₀)² + (y₁ − w₁)²)/4 + ‖w‖`, start `w = 0`, stacked
    direction `[1, 0]`, i.e. `+1` on feature 1 (the first feature of the group). -/

noncomputable def exAP (y1 : ℝ) : GrpProb ℝ 2 2 :=
  { X := fun i j => if i.1 = j.1 then 1 else 0, y := fun i => if i.1 = 1 then y1 else 0,
    sw := fun _ => 1, df := .quadratic, pen := .wgl2 1 false, groups := [[1, 0]], wgs := [1],
    wfs := fun _ => 1, lips := [1], fitInt := false }
def exAS : CDState ℝ 2 2 := { w := fun _ => 0, b := 0, Xw := fun _ => 0 }
def exAD : GPNDir ℝ 2 := { dws := [1, 0], db := 0, Xd := fun i => if i.1 = 1 then 1 else 0 }

theorem exA_nodup (y1 : ℝ) : WsNodup (exAP y1) [0] := by simp [WsNodup, grpOf, exAP]

theorem exA_move (y1 t : ℝ) : (exAP y1).gpnMoveBy [0] exAS exAD t =
    { w := fun j => if j.1 = 1 then t else 0, b := 0, Xw := fun i => if i.1 = 1 then t else 0 } := by
  rw [moveBy_eq _ _ _ _ _ (exA_nodup y1)]
  apply CDState.ext'
  · funext j
    simp only [effDir, eff_eq_list]
    fin_cases j <;> simp [stackIdx, grpOf, exAP, exAS, exAD]
  · simp [exAP, exAS]
  · funext i
    fin_cases i <;> simp [exAS, exAD]

theorem exA_pen (y1 t : ℝ) (ht : 0 < t) :
    (exAP y1).penValue (fun j : Fin 2 => if j.1 = 1 then t else 0) = .fin t := by
  simp [GrpProb.penValue, GrpProb.penTerm, esum, Fin.foldl_succ, Fin.foldl_zero, exAP,
    BlkPen.penBlk, GrpProb.block, norm2_eq, Fin.sum_univ_succ, Ext.add]
  exact Real.sqrt_mul_self ht.le

theorem exA_pen0 (y1 : ℝ) : (exAP y1).penValue exAS.w = .fin 0 := by
  simp [GrpProb.penValue, GrpProb.penTerm, esum, Fin.foldl_succ, Fin.foldl_zero, exAP, exAS,
    BlkPen.penBlk, GrpProb.block, norm2_eq, Ext.add]

theorem exA_dirConsistent (y1 : ℝ) : DirConsistent (exAP y1) [0] exAD := by
  intro i
  fin_cases i <;> simp [stackIdx, grpOf, exAP, exAD]

theorem exA_consistent (y1 : ℝ) : GConsistent (exAP y1) exAS := by
  intro i; simp [exAS]

theorem exA_accept_iff (y1 t : ℝ) (ht : 0 < t) :
    (exAP y1).gpnLineSearchAccept (exAP y1).groups [0] exAS exAD t = true ↔ 2 + t < y1 := by
  unfold gpnLineSearchAccept gpnLineSearchAcceptAt gpnLineSearchTestAt
  rw [exA_move, exA_pen0]
  simp only [exA_pen y1 t ht, CDProb.extSub]
  simp [gpnConstructGrad, stackIdx, grpOf, nFeatWs, sdot, exAP, exAD, DF.rawGrad, DF.dloss1,
    DF.normaliser, vsum_eq, Fin.sum_univ_succ, Ext.lt]
  constructor <;> intro h <;> nlinarith

theorem exA_obj (y1 t : ℝ) (ht : 0 < t) :
    (exAP y1).objective ((exAP y1).gpnMoveBy [0] exAS exAD t) = .fin ((y1 - t) ^ 2 / 4 + t) := by
  rw [exA_move]
  simp only [GrpProb.objective, exA_pen y1 t ht, Ext.add]
  simp [exAP, DF.value, DF.loss1, DF.normaliser, DF.lin, vsum_eq, Fin.sum_univ_succ]
  ring

theorem exA_obj0 (y1 : ℝ) : (exAP y1).objective exAS = .fin (y1 ^ 2 / 4) := by
  simp only [GrpProb.objective, exA_pen0, Ext.add]
  simp [exAP, exAS, DF.value, DF.loss1, DF.normaliser, DF.lin, vsum_eq, Fin.sum_univ_succ]
  ring

/-- non-vacuity of (b): the hypotheses hold together on a permuted group -/
example (y1 : ℝ) : (exAP y1).penValue exAS.w = .fin 0 ∧ WsNodup (exAP y1) [0] ∧
    LayoutsAgree (exAP y1) (exAP y1).groups [0] ∧ DirConsistent (exAP y1) [0] exAD ∧
    GConsistent (exAP y1) exAS ∧
    (∀ i, 0 ≤ (exAP y1).sw i) ∧ 0 ≤ (exAP y1).df.normaliser (exAP y1).sw ∧
    (∀ δ, (exAP y1).df = .huber δ → 0 < δ) ∧ ((exAP y1).df = .gamma → ∀ i, 0 ≤ (exAP y1).y i) ∧
    (exAP y1).df.lin = 0 := by
  refine ⟨exA_pen0 y1, exA_nodup y1, layoutsAgree_self _ _, exA_dirConsistent y1,
    exA_consistent y1, ?_, ?_, ?_, ?_, ?_⟩ <;> simp [exAP, DF.normaliser, DF.lin]

/-- non-vacuity of (b), success branch (`y₁ = 4`): the full step is accepted and
    the objective goes from `4` to `13/4` -/
example : (exAP 4).gpnBacktrack 20 (exAP 4).groups [0] exAS exAD
      = (exAP 4).gpnMoveBy [0] exAS exAD 1 ∧
    (exAP 4).objective ((exAP 4).gpnBacktrack 20 (exAP 4).groups [0] exAS exAD) = .fin (13 / 4) ∧
    (exAP 4).objective exAS = .fin 4 := by
  have hacc : (exAP 4).gpnLineSearchAccept (exAP 4).groups [0] exAS exAD 1 = true :=
    (exA_accept_iff 4 1 one_pos).2 (by norm_num)
  have hr : (exAP 4).gpnBacktrack 20 (exAP 4).groups [0] exAS exAD
      = (exAP 4).gpnMoveBy [0] exAS exAD 1 := by
    rcases gpn_backtrack_returns 19 (exAP 4) (exAP 4).groups [0] exAS exAD (exA_nodup 4) with
      ⟨k, _, hr, _, hb⟩ | ⟨hall, _⟩
    · rcases Nat.eq_zero_or_pos k with rfl | hk
      · simpa using hr
      · have := hb 0 hk
        rw [pow_zero, div_one, hacc] at this; cases this
    · have := hall 0 (by omega)
      rw [pow_zero, div_one, hacc] at this; cases this
  refine ⟨hr, ?_, ?_⟩
  · rw [hr, exA_obj 4 1 one_pos]; norm_num
  · rw [exA_obj0]; norm_num

/-- **(c-1) a failed search can ascend.**  Every hypothesis of (b) holds, every one of the 20 tests
    fails (in fact the test fails for every step `2^{-k}`), the function returns the last trial
    point `s0 + 2^{-19} d`, and the objective there is strictly larger than at the start.

    Replay (the stock `QuadraticGroup` has no `raw_grad`, which the solver requires: subclass it
    with `raw_grad = (Xw - y) / len(y)`, `raw_hessian = ones / len(y)`):
    ```python
    X = np.array([[1., 0.], [0., 1.]]); y = np.array([0., 0.])
    grp_ptr = np.array([0, 2], dtype=np.int32); grp_indices = np.array([1, 0], dtype=np.int32)
    datafit = QuadraticGroupWithRawGrad(grp_ptr, grp_indices)
    penalty = WeightedGroupL2(alpha=1., weights=np.array([1.]), grp_ptr=grp_ptr, grp_indices=grp_indices)
    w = np.zeros(2); Xw = np.zeros(2); ws = np.array([0])
    delta_w_ws = np.array([1., 0.]); X_delta_w_ws = np.array([0., 1.])
    _backtrack_line_search(X, y, w, Xw, False, datafit, penalty, delta_w_ws, X_delta_w_ws, ws)
    # w == [0, 2**-19], Xw == [0, 2**-19]; objective 0.0 -> 1.9073495e-06
    ```  -/
theorem gpn_failed_search_can_ascend :
    ∃ (P : GrpProb ℝ 2 2) (ws : List Nat) (s0 : CDState ℝ 2 2) (d : GPNDir ℝ 2) (a b : ℝ),
      P.penValue s0.w = .fin 0 ∧ WsNodup P ws ∧ LayoutsAgree P P.groups ws ∧
      DirConsistent P ws d ∧ GConsistent P s0 ∧ P.df = .quadratic ∧ (∀ i, P.sw i = 1) ∧
      (∀ k : Nat, P.gpnLineSearchAccept P.groups ws s0 d (1 / 2 ^ k) = false) ∧
      P.gpnBacktrack 20 P.groups ws s0 d = P.gpnMoveBy ws s0 d (1 / 2 ^ 19) ∧
      P.objective (P.gpnBacktrack 20 P.groups ws s0 d) = .fin a ∧ P.objective s0 = .fin b ∧
      b < a := by
  have hall : ∀ k : Nat,
      (exAP 0).gpnLineSearchAccept (exAP 0).groups [0] exAS exAD (1 / 2 ^ k) = false := by
    intro k
    have ht : (0 : ℝ) < 1 / 2 ^ k := by positivity
    rw [Bool.eq_false_iff, Ne, exA_accept_iff 0 _ ht]
    linarith
  have hr : (exAP 0).gpnBacktrack 20 (exAP 0).groups [0] exAS exAD
      = (exAP 0).gpnMoveBy [0] exAS exAD (1 / 2 ^ 19) := by
    rcases gpn_backtrack_returns 19 (exAP 0) (exAP 0).groups [0] exAS exAD (exA_nodup 0) with
      ⟨k, _, _, hacc, _⟩ | ⟨_, h⟩
    · rw [hall k] at hacc; cases hacc
    · exact h
  refine ⟨exAP 0, [0], exAS, exAD, (0 - 1 / 2 ^ 19) ^ 2 / 4 + 1 / 2 ^ 19, 0 ^ 2 / 4,
    exA_pen0 0, exA_nodup 0, layoutsAgree_self _ _, exA_dirConsistent 0, exA_consistent 0, rfl,
    fun _ => rfl, hall, hr, ?_, exA_obj0 0, ?_⟩
  · rw [hr]; exact exA_obj 0 _ (by positivity)
  · norm_num

/-! #### B. datafit and penalty built with different `grp_indices`

    (ii) is *not* a mis-pairing inside `_backtrack_line_search` as long as datafit and penalty were
    built from the same `grp_ptr / grp_indices`: `accepted_step_descends` holds for every layout.
    But the move and `n_features_ws` read the penalty's arrays while `_construct_grad` reads the
    datafit's, and nothing checks that they are the same.  With the same group listed as `[0, 1]`
    by the penalty and `[1, 0]` by the datafit, the stacked gradient is paired with the wrong
    entries of the direction and the test accepts an ascent step. -/

noncomputable def exBP : GrpProb ℝ 2 2 :=
  { X := fun i j => if i.1 = j.1 then 1 else 0, y := fun i => if i.1 = 0 then 4 else -4,
    sw := fun _ => 1, df := .quadratic, pen := .wgl2 1 false, groups := [[0, 1]], wgs := [1],
    wfs := fun _ => 1, lips := [1], fitInt := false }
/-- the datafit's layout: the same group, listed in the other order -/
def exBdg : List (List (Fin 2)) := [[1, 0]]
def exBS : CDState ℝ 2 2 := { w := fun _ => 0, b := 0, Xw := fun _ => 0 }
def exBD : GPNDir ℝ 2 := { dws := [-1, 0], db := 0, Xd := fun i => if i.1 = 0 then -1 else 0 }

theorem exB_nodup : WsNodup exBP [0] := by simp [WsNodup, grpOf, exBP]

theorem exB_move : exBP.gpnMoveBy [0] exBS exBD 1 =
    { w := fun j => if j.1 = 0 then -1 else 0, b := 0,
      Xw := fun i => if i.1 = 0 then -1 else 0 } := by
  rw [moveBy_eq _ _ _ _ _ exB_nodup]
  apply CDState.ext'
  · funext j
    simp only [effDir, eff_eq_list]
    fin_cases j <;> simp [stackIdx, grpOf, exBP, exBS, exBD]
  · simp [exBP, exBS]
  · funext i
    fin_cases i <;> simp [exBS, exBD]

theorem exB_pen0 : exBP.penValue exBS.w = .fin 0 := by
  simp [GrpProb.penValue, GrpProb.penTerm, esum, Fin.foldl_succ, Fin.foldl_zero, exBP, exBS,
    BlkPen.penBlk, GrpProb.block, norm2_eq, Ext.add]

theorem exB_pen1 : exBP.penValue (fun j : Fin 2 => if j.1 = 0 then -1 else 0) = .fin 1 := by
  simp [GrpProb.penValue, GrpProb.penTerm, esum, Fin.foldl_succ, Fin.foldl_zero, exBP,
    BlkPen.penBlk, GrpProb.block, norm2_eq, Fin.sum_univ_succ, Ext.add]

theorem exB_accept : exBP.gpnLineSearchAccept exBdg [0] exBS exBD 1 = true := by
  unfold gpnLineSearchAccept gpnLineSearchAcceptAt gpnLineSearchTestAt
  rw [exB_move, exB_pen0]
  simp only [exB_pen1, CDProb.extSub]
  simp [gpnConstructGrad, stackIdx, grpOf, nFeatWs, sdot, exBP, exBD, exBdg, DF.rawGrad, DF.dloss1,
    DF.normaliser, vsum_eq, Fin.sum_univ_succ, Ext.lt]
  norm_num

theorem exB_obj1 : exBP.objective (exBP.gpnMoveBy [0] exBS exBD 1) = .fin (45 / 4) := by
  rw [exB_move]
  simp only [GrpProb.objective, exB_pen1, Ext.add]
  simp [exBP, DF.value, DF.loss1, DF.normaliser, DF.lin, vsum_eq, Fin.sum_univ_succ]
  norm_num

theorem exB_obj0 : exBP.objective exBS = .fin 8 := by
  simp only [GrpProb.objective, exB_pen0, Ext.add]
  simp [exBP, exBS, DF.value, DF.loss1, DF.normaliser, DF.lin, vsum_eq, Fin.sum_univ_succ]
  norm_num

/-- **(c-2) the test accepts an ascent step when the datafit and the penalty list the features of
    a group in different orders** (`LayoutsAgree` fails, everything else in (b) holds): the first
    trial step is accepted and the objective goes from `8` to `45/4`.

    Replay (same `QuadraticGroupWithRawGrad` as above):
    ```python
    X = np.eye(2); y = np.array([4., -4.])
    grp_ptr = np.array([0, 2], dtype=np.int32)
    datafit = QuadraticGroupWithRawGrad(grp_ptr, np.array([1, 0], dtype=np.int32))
    penalty = WeightedGroupL2(1., np.array([1.]), grp_ptr, np.array([0, 1], dtype=np.int32))
    w = np.zeros(2); Xw = np.zeros(2); ws = np.array([0])
    delta_w_ws = np.array([-1., 0.]); X_delta_w_ws = np.array([-1., 0.])
    _backtrack_line_search(X, y, w, Xw, False, datafit, penalty, delta_w_ws, X_delta_w_ws, ws)
    # w == [-1, 0] (accepted at step 1); objective 8.0 -> 11.25
    ```  -/
theorem gpn_accepts_ascent_on_mismatched_layouts :
    ∃ (P : GrpProb ℝ 2 2) (dg : List (List (Fin 2))) (ws : List Nat) (s0 : CDState ℝ 2 2)
      (d : GPNDir ℝ 2) (a b : ℝ),
      P.penValue s0.w = .fin 0 ∧ WsNodup P ws ∧ DirConsistent P ws d ∧ GConsistent P s0 ∧
      P.df = .quadratic ∧ (∀ i, P.sw i = 1) ∧
      (∀ g ∈ ws, (grpOf dg g).Perm (grpOf P.groups g)) ∧ ¬ LayoutsAgree P dg ws ∧
      P.gpnLineSearchAccept dg ws s0 d 1 = true ∧
      P.gpnBacktrack 20 dg ws s0 d = P.gpnMoveBy ws s0 d 1 ∧
      P.objective (P.gpnBacktrack 20 dg ws s0 d) = .fin a ∧ P.objective s0 = .fin b ∧ b < a := by
  have hr : exBP.gpnBacktrack 20 exBdg [0] exBS exBD = exBP.gpnMoveBy [0] exBS exBD 1 := by
    rcases gpn_backtrack_returns 19 exBP exBdg [0] exBS exBD exB_nodup with
      ⟨k, _, hr, _, hb⟩ | ⟨hall, _⟩
    · rcases Nat.eq_zero_or_pos k with rfl | hk
      · simpa using hr
      · have := hb 0 hk
        rw [pow_zero, div_one, exB_accept] at this; cases this
    · have := hall 0 (by omega)
      rw [pow_zero, div_one, exB_accept] at this; cases this
  refine ⟨exBP, exBdg, [0], exBS, exBD, 45 / 4, 8, exB_pen0, exB_nodup, ?_, ?_, rfl, fun _ => rfl,
    ?_, ?_, exB_accept, hr, by rw [hr]; exact exB_obj1, exB_obj0, by norm_num⟩
  · intro i
    fin_cases i <;> simp [stackIdx, grpOf, exBP, exBD]
  · intro i; simp [exBS]
  · intro g hg
    simp only [List.mem_cons, List.not_mem_nil, or_false] at hg
    subst hg
    simp only [grpOf, exBdg, exBP, List.getD_cons_zero]
    exact List.Perm.swap 0 1 []
  · intro h
    have := h 0 (by simp)
    simp [grpOf, exBdg, exBP] at this


/-! #### C. where a feature index *is* used as a stacked position: `_solve`, not the line search

    `_solve` computes `grad = _construct_grad(…, all_groups)` — stacked over all groups, position
    `k` holds the gradient of feature `grp_indices[k]` — and then
    `grad_ws = _slice_array(grad, ws, grp_ptr, grp_indices)`, which reads `grad[grp_g_indices]`:
    feature indices used as positions.  This is right iff `grp_indices` is the identity
    (contiguous groups in natural order).  The mis-sliced `grad_ws` only feeds the first
    `_descent_direction` of each outer iteration (the line search returns a correctly stacked
    `grad_ws` for the next ones), so it produces a bad first direction — which is how the
    failed-search branch of the line search (c-1) can be reached. -/

/-- identity `grp_indices`: `_slice_array(grad_all, ws)` is the stacked gradient of `ws` -/
theorem gpn_initial_grad_ws_ok_of_identity (P : GrpProb ℝ n p) (ws : List Nat) (Xw : Fin n → ℝ)
    (hid : stackIdx P.groups (List.range P.groups.length) = List.finRange p) :
    P.gpnInitialGradWs P.groups ws Xw = P.gpnConstructGrad P.groups ws Xw := by
  unfold gpnInitialGradWs gpnSliceArray
  rw [constructGrad_eq, constructGrad_eq, hid]
  apply List.map_congr_left
  intro j _
  simp [List.getD_eq_getElem?_getD]

noncomputable def exCP : GrpProb ℝ 2 2 :=
  { X := fun i j => if i.1 = j.1 then 1 else 0, y := fun i => if i.1 = 0 then 1 else 2,
    sw := fun _ => 1, df := .quadratic, pen := .wgl2 1 false, groups := [[1], [0]], wgs := [1, 1],
    wfs := fun _ => 1, lips := [1, 1], fitInt := false }

/-- two singleton groups listed as `[[1], [0]]`: the stacked gradient of `ws = [0, 1]` is
    `[∇₁, ∇₀] = [-1, -1/2]` but `_solve` hands `[-1/2, -1]` to `_descent_direction`.
    ```python
    X = np.eye(2); y = np.array([1., 2.]); w = np.zeros(2); Xw = np.zeros(2)
    grp_ptr = np.array([0, 1, 2], dtype=np.int32); grp_indices = np.array([1, 0], dtype=np.int32)
    grad = _construct_grad(X, y, w, Xw, datafit, np.arange(2))           # [-1. , -0.5]
    _slice_array(grad, np.array([0, 1]), grp_ptr, grp_indices)           # [-0.5, -1. ]
    _construct_grad(X, y, w, Xw, datafit, np.array([0, 1]))              # [-1. , -0.5]
    ```  -/
theorem gpn_initial_grad_ws_misaligned_on_permuted_groups :
    ∃ (P : GrpProb ℝ 2 2) (ws : List Nat) (Xw : Fin 2 → ℝ),
      P.gpnConstructGrad P.groups ws Xw = [-1, -1 / 2] ∧
      P.gpnInitialGradWs P.groups ws Xw = [-1 / 2, -1] := by
  refine ⟨exCP, [0, 1], fun _ => 0, ?_, ?_⟩
  · simp [gpnConstructGrad, stackIdx, grpOf, exCP, DF.rawGrad, DF.dloss1, DF.normaliser, vsum_eq,
      Fin.sum_univ_succ]
  · simp [gpnInitialGradWs, gpnSliceArray, gpnConstructGrad, stackIdx, grpOf, exCP, DF.rawGrad,
      DF.dloss1, DF.normaliser, vsum_eq, Fin.sum_univ_succ, show List.range 2 = [0, 1] from rfl]



/-! #### D. a feature listed twice inside a group

    `w[grp_g_indices] += v` writes a repeated index once (last write wins) while
    `_descent_direction` adds the column once per stacked position: the buffer goes out of sync. -/

noncomputable def exDP : GrpProb ℝ 1 1 :=
  { X := fun _ _ => 1, y := fun _ => 10, sw := fun _ => 1, df := .quadratic, pen := .wgl2 0 false,
    groups := [[0, 0]], wgs := [1], wfs := fun _ => 1, lips := [1], fitInt := false }
def exDS : CDState ℝ 1 1 := { w := fun _ => 0, b := 0, Xw := fun _ => 0 }
def exDD : GPNDir ℝ 1 := { dws := [1, 1], db := 0, Xd := fun _ => 2 }

theorem exD_move : exDP.gpnMoveBy [0] exDS exDD 1 =
    { w := fun _ => 1, b := 0, Xw := fun _ => 2 } := by
  apply CDState.ext'
  · funext j
    simp [gpnMoveBy, gpnScatter, grpOf, exDP, exDS, exDD, GrpProb.assign, Fin.foldl_succ,
      Fin.foldl_zero, Fin.eq_zero]
    rfl
  · simp [gpnMoveBy, exDP, exDS]
  · funext i
    simp [gpnMoveBy, exDS, exDD]

theorem exD_accept : exDP.gpnLineSearchAccept exDP.groups [0] exDS exDD 1 = true := by
  unfold gpnLineSearchAccept gpnLineSearchAcceptAt gpnLineSearchTestAt
  rw [exD_move]
  simp [GrpProb.penValue, GrpProb.penTerm, esum, Fin.foldl_succ, Fin.foldl_zero, BlkPen.penBlk,
    Ext.add, CDProb.extSub, gpnConstructGrad, stackIdx, grpOf, nFeatWs, sdot, exDP, exDS, exDD,
    DF.rawGrad, DF.dloss1, DF.normaliser, vsum_eq, Ext.lt]
  norm_num

/-- **(a) needs distinct indices inside each group**: group `[0, 0]`, stacked direction `[1, 1]`,
    `X_delta_w_ws = 2·X[:, 0]` as `_descent_direction` would build it; the first step is accepted
    and leaves `w = [1]`, `Xw = [2] ≠ X w`.
    ```python
    X = np.array([[1.]]); y = np.array([10.])
    grp_ptr = np.array([0, 2], dtype=np.int32); grp_indices = np.array([0, 0], dtype=np.int32)
    # alpha = 0., weights = [1.]; w = [0.]; Xw = [0.]; ws = [0]
    delta_w_ws = np.array([1., 1.]); X_delta_w_ws = np.array([2.])
    # after _backtrack_line_search: w == [1.], Xw == [2.]
    ```  -/
theorem gpn_backtrack_consistent_needs_nodup :
    ∃ (P : GrpProb ℝ 1 1) (ws : List Nat) (s0 : CDState ℝ 1 1) (d : GPNDir ℝ 1),
      GConsistent P s0 ∧ DirConsistent P ws d ∧
      ¬ GConsistent P (P.gpnBacktrack 20 P.groups ws s0 d) := by
  have hr : exDP.gpnBacktrack 20 exDP.groups [0] exDS exDD = exDP.gpnMoveBy [0] exDS exDD 1 := by
    have hacc := exD_accept
    unfold gpnLineSearchAccept at hacc
    unfold gpnBacktrack
    rw [gpnBacktrackLoop]
    simp only [sub_zero]
    rw [if_pos hacc]
  refine ⟨exDP, [0], exDS, exDD, ?_, ?_, ?_⟩
  · intro i; simp [exDS]
  · intro i; simp [stackIdx, grpOf, exDP, exDD]; norm_num
  · rw [hr, exD_move]
    intro h
    have := h 0
    simp [exDP] at this

/-! #### E. (c-1) again with the stock `LogisticGroup` (the only built-in datafit the solver accepts)

    one sample, one feature, `X = [[1]]`, `y = [1]`, `alpha = 1`; start `w = 0`, direction `-1`. -/
noncomputable def exEP : GrpProb ℝ 1 1 :=
  { X := fun _ _ => 1, y := fun _ => 1, sw := fun _ => 1, df := .logistic, pen := .wgl2 1 false,
    groups := [[0]], wgs := [1], wfs := fun _ => 1, lips := [1], fitInt := false }
def exES : CDState ℝ 1 1 := { w := fun _ => 0, b := 0, Xw := fun _ => 0 }
def exED : GPNDir ℝ 1 := { dws := [-1], db := 0, Xd := fun _ => -1 }

theorem exE_nodup : WsNodup exEP [0] := by simp [WsNodup, grpOf, exEP]

theorem exE_move (t : ℝ) : exEP.gpnMoveBy [0] exES exED t =
    { w := fun _ => -t, b := 0, Xw := fun _ => -t } := by
  rw [moveBy_eq _ _ _ _ _ exE_nodup]
  apply CDState.ext'
  · funext j
    simp only [effDir, eff_eq_list]
    simp [stackIdx, grpOf, exEP, exES, exED, Fin.eq_zero]
  · simp [exEP, exES]
  · funext i
    simp [exES, exED]

theorem exE_pen (t : ℝ) (ht : 0 < t) : exEP.penValue (fun _ : Fin 1 => -t) = .fin t := by
  simp [GrpProb.penValue, GrpProb.penTerm, esum, Fin.foldl_succ, Fin.foldl_zero, exEP,
    BlkPen.penBlk, GrpProb.block, norm2_eq, Ext.add]
  exact Real.sqrt_mul_self ht.le

theorem exE_pen0 : exEP.penValue exES.w = .fin 0 := by
  simp [GrpProb.penValue, GrpProb.penTerm, esum, Fin.foldl_succ, Fin.foldl_zero, exEP, exES,
    BlkPen.penBlk, GrpProb.block, norm2_eq, Ext.add]

theorem exE_accept (t : ℝ) (ht : 0 < t) :
    exEP.gpnLineSearchAccept exEP.groups [0] exES exED t = false := by
  unfold gpnLineSearchAccept gpnLineSearchAcceptAt gpnLineSearchTestAt
  rw [exE_move, exE_pen0]
  simp only [exE_pen t ht, CDProb.extSub]
  simp [gpnConstructGrad, stackIdx, grpOf, nFeatWs, sdot, exEP, exED, DF.rawGrad, DF.dloss1,
    DF.normaliser, vsum_eq, Ext.lt]
  have h : -1 / (1 + Real.exp (-t)) ≤ 1 := by
    have := Real.exp_pos (-t)
    rw [div_le_one (by positivity)]; linarith
  nlinarith

theorem exE_obj (t : ℝ) (ht : 0 < t) :
    exEP.objective (exEP.gpnMoveBy [0] exES exED t) = .fin (Real.log (1 + Real.exp t) + t) := by
  rw [exE_move]
  simp only [GrpProb.objective, exE_pen t ht, Ext.add]
  simp [exEP, DF.value, DF.loss1, DF.normaliser, DF.lin, vsum_eq]

theorem exE_obj0 : exEP.objective exES = .fin (Real.log 2) := by
  simp only [GrpProb.objective, exE_pen0, Ext.add]
  simp [exEP, exES, DF.value, DF.loss1, DF.normaliser, DF.lin, vsum_eq]
  norm_num

/-- **(c-1), logistic**: every test fails, the last trial point `w = -2^{-19}` is kept, and
    `log(1 + e^{t}) + t > log 2` there.
    ```python
    X = np.array([[1.]]); y = np.array([1.])
    grp_ptr = np.array([0, 1], dtype=np.int32); grp_indices = np.array([0], dtype=np.int32)
    datafit = LogisticGroup(grp_ptr, grp_indices)
    penalty = WeightedGroupL2(1., np.array([1.]), grp_ptr, grp_indices)
    w = np.zeros(1); Xw = np.zeros(1)
    _backtrack_line_search(X, y, w, Xw, False, datafit, penalty, np.array([-1.]), np.array([-1.]), np.array([0]))
    # w == [-2**-19]; objective 0.6931471805599453 -> 0.6931500415833493
    ```  -/
theorem gpn_failed_search_can_ascend_logistic :
    ∃ (P : GrpProb ℝ 1 1) (ws : List Nat) (s0 : CDState ℝ 1 1) (d : GPNDir ℝ 1) (a b : ℝ),
      P.penValue s0.w = .fin 0 ∧ WsNodup P ws ∧ LayoutsAgree P P.groups ws ∧
      DirConsistent P ws d ∧ GConsistent P s0 ∧ P.df = .logistic ∧ (∀ i, P.sw i = 1) ∧
      (∀ k : Nat, P.gpnLineSearchAccept P.groups ws s0 d (1 / 2 ^ k) = false) ∧
      P.gpnBacktrack 20 P.groups ws s0 d = P.gpnMoveBy ws s0 d (1 / 2 ^ 19) ∧
      P.objective (P.gpnBacktrack 20 P.groups ws s0 d) = .fin a ∧ P.objective s0 = .fin b ∧
      b < a := by
  have hall : ∀ k : Nat, exEP.gpnLineSearchAccept exEP.groups [0] exES exED (1 / 2 ^ k) = false :=
    fun k => exE_accept _ (by positivity)
  have hr : exEP.gpnBacktrack 20 exEP.groups [0] exES exED
      = exEP.gpnMoveBy [0] exES exED (1 / 2 ^ 19) := by
    rcases gpn_backtrack_returns 19 exEP exEP.groups [0] exES exED exE_nodup with
      ⟨k, _, _, hacc, _⟩ | ⟨_, h⟩
    · rw [hall k] at hacc; cases hacc
    · exact h
  have ht : (0 : ℝ) < 1 / 2 ^ 19 := by positivity
  refine ⟨exEP, [0], exES, exED, Real.log (1 + Real.exp (1 / 2 ^ 19)) + 1 / 2 ^ 19, Real.log 2,
    exE_pen0, exE_nodup, layoutsAgree_self _ _, ?_, ?_, rfl, fun _ => rfl, hall, hr, ?_,
    exE_obj0, ?_⟩
  · intro i; simp [stackIdx, grpOf, exEP, exED]
  · intro i; simp [exES]
  · rw [hr]; exact exE_obj _ ht
  · have h1 : (1 : ℝ) < Real.exp (1 / 2 ^ 19) := Real.one_lt_exp_iff.2 ht
    have h2 : Real.log 2 < Real.log (1 + Real.exp (1 / 2 ^ 19)) :=
      Real.log_lt_log (by norm_num) (by linarith)
    linarith

end Skglm.GPN
