def hello := "world"
