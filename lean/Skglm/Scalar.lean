/-
  Scalars of the skglm model.

  Every kernel of the model is written once, polymorphically in a scalar type `α`
  with the operations skglm's numeric code uses.  Two instances exist:

  * `Float`  (here, core Lean only): used by the driver that is run against the
    real implementation by the correspondence harness;
  * `ℝ`      (in `Skglm/Real.lean`, Mathlib): the reading the theorems are about.

  Model files import no Mathlib so that the driver can be compiled to a native
  executable.
-/

class Scalar (α : Type) extends Add α, Sub α, Mul α, Div α, Neg α, LT α, LE α,
    Zero α, One α, NatCast α where
  decLt : DecidableRel (α := α) (· < ·)
  decLe : DecidableRel (α := α) (· ≤ ·)
  sqrt : α → α
  exp : α → α
  log : α → α
  cos : α → α
  acos : α → α
  /-- `pow x y = x ^ y` for real exponents (numpy `**`, `np.power`). -/
  pow : α → α → α

instance {α} [Scalar α] : DecidableRel (α := α) (· < ·) := Scalar.decLt
instance {α} [Scalar α] : DecidableRel (α := α) (· ≤ ·) := Scalar.decLe

instance : Scalar Float where
  zero := 0.0
  one := 1.0
  natCast := Float.ofNat
  decLt := fun a b => inferInstanceAs (Decidable (a < b))
  decLe := fun a b => inferInstanceAs (Decidable (a ≤ b))
  sqrt := Float.sqrt
  exp := Float.exp
  log := Float.log
  cos := Float.cos
  acos := Float.acos
  pow := Float.pow

namespace Skglm

variable {α : Type} [Scalar α]

/-- numeric literal `n` as a scalar -/
@[inline] def nat (n : Nat) : α := (n : α)

/-- the rational `a / b` as a scalar (e.g. `1/2`, `2/3`) -/
@[inline] def frac (a b : Nat) : α := (nat a : α) / nat b

/-- `np.abs` -/
def sabs (x : α) : α := if x < 0 then -x else x

/-- `np.sign` -/
def sgn (x : α) : α := if 0 < x then 1 else if x < 0 then -1 else 0

/-- Python's / numpy's `max(a, b)` on non-NaN numbers -/
def smax (a b : α) : α := if a < b then b else a

/-- Python's / numpy's `min(a, b)` on non-NaN numbers -/
def smin (a b : α) : α := if b < a then b else a

/-- `x == y` on numbers, expressed with the order so that it is decidable for both instances -/
def eqb (x y : α) : Bool := decide (x ≤ y) && decide (y ≤ x)

/-- `x != 0` -/
def nz (x : α) : Bool := !(eqb x 0)

/-- A value that may be `+inf` (numpy's `np.inf` for an empty sub-differential / infeasible point). -/
inductive Ext (α : Type) where
  | fin : α → Ext α
  | inf : Ext α
  deriving Repr

/-! ### Vectors: functions on `Fin n`, with sums as left folds in loop order -/

/-- materialise a vector so that nested closures are evaluated once (identity for proofs) -/
@[macro_inline] def mat {n : Nat} (f : Fin n → α) : Fin n → α :=
  let a := Array.ofFn f
  fun i => a[i.1]'(by simp [a])

/-- `Σ_i f i`, accumulated left to right like a Python/numba loop -/
def vsum {n : Nat} (f : Fin n → α) : α := Fin.foldl n (fun acc i => acc + f i) 0

/-- dot product -/
def dot {n : Nat} (x y : Fin n → α) : α := vsum (fun i => x i * y i)

/-- Euclidean norm `numpy.linalg.norm` -/
def norm2 {n : Nat} (x : Fin n → α) : α := Scalar.sqrt (vsum (fun i => x i * x i))

/-- `np.any(x)` : some entry is non-zero -/
def anyNz {n : Nat} (x : Fin n → α) : Bool := Fin.foldl n (fun acc i => acc || nz (x i)) false

/-- maximum of a vector of `Ext` values given as list (returns 0 on the empty list like the code never calls it there) -/
def listMax (xs : List α) : α := xs.foldl smax 0

end Skglm
