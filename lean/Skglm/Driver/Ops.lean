import Skglm.Driver.Proto
import Skglm.Model.Penalties
/-
  Operations the driver answers: one per modelled kernel.
-/
namespace Skglm.Ops
open Skglm Skglm.Proto

def pPen : P (SepPen Float) := do
  let t ← tok
  match t with
  | "l1" => do let a ← pFloat; let p ← pBool; pure (.l1 a p)
  | "l1l2" => do let a ← pFloat; let r ← pFloat; let p ← pBool; pure (.l1l2 a r p)
  | "wl1" => do let a ← pFloat; let p ← pBool; pure (.wl1 a p)
  | "mcp" => do let a ← pFloat; let g ← pFloat; let p ← pBool; pure (.mcp a g p)
  | "wmcp" => do let a ← pFloat; let g ← pFloat; let p ← pBool; pure (.wmcp a g p)
  | "scad" => do let a ← pFloat; let g ← pFloat; pure (.scad a g)
  | "box" => do let a ← pFloat; pure (.box a)
  | "l05" => do let a ← pFloat; pure (.l05 a)
  | "l23" => do let a ← pFloat; pure (.l23 a)
  | "logsum" => do let a ← pFloat; let e ← pFloat; pure (.logsum a e)
  | "pos" => pure .pos
  | _ => throw s!"pen:{t}"


/-- answer one request -/
def penOps (op : String) : Option (P String) :=
  match op with
  | "prox1" => some do
      let pen ← pPen; let wt ← pFloat; let v ← pFloat; let s ← pFloat
      pure (fmt (pen.prox1 wt v s))
  | "sd1" => some do
      let pen ← pPen; let wt ← pFloat; let w ← pFloat; let g ← pFloat
      pure (fmtE (pen.sd1 wt w g))
  | "pen1" => some do
      let pen ← pPen; let wt ← pFloat; let w ← pFloat
      pure (fmtE (pen.pen1 wt w))
  | "penvalue" => some do
      let pen ← pPen; let ⟨p, wts⟩ ← pVec; let w ← pVecN p
      pure (fmtE (pen.value wts w))
  | "gsupp1" => some do
      let pen ← pPen; let w ← pFloat
      pure (fmtB (pen.gsupp1 w))
  | "ispen1" => some do
      let pen ← pPen; let wt ← pFloat
      pure (fmtB (pen.isPen1 wt))
  | "alphamax" => some do
      let pen ← pPen; let ⟨p, wts⟩ ← pVec; let g ← pVecN p
      let cs := (List.ofFn (fun j : Fin p => pen.alphaMax1 (wts j) (g j))).filterMap id
      match cs with
      | [] => pure "empty"
      | c :: rest => pure (fmt (rest.foldl smax c))
  | "ST" => some do
      let x ← pFloat; let u ← pFloat; let p ← pBool
      pure (fmt (ST x u p))
  | "BST" => some do
      let ⟨_, x⟩ ← pVec; let u ← pFloat; let p ← pBool
      pure (fmtVec (BST x u p))
  | "ST_vec" => some do
      let ⟨_, x⟩ ← pVec; let u ← pFloat
      pure (fmtVec (ST_vec x u))
  | "prox_SLOPE" => some do
      let z ← pList; let a ← pList
      pure (fmtList (prox_SLOPE z a))
  | _ => none

end Skglm.Ops
