import Skglm.Driver.OpsCD
import Skglm.Model.BCD
import Skglm.Model.ProxNewton
import Skglm.Model.Cox
import Skglm.Model.MultiTask
import Skglm.Model.GramCD
import Skglm.Model.ProxNewtonDir
import Skglm.Model.GroupProxNewton
import Skglm.Model.FISTA
import Skglm.Model.LBFGS
import Skglm.Model.PDCD
/-
  Driver operations for the block coordinate-descent moves (GroupBCD), the prox-Newton backtracking
  line search and the Cox sweeps.

  group problem : `<df> n p X(row-major) sw y <blkpen> G (k idx*k)*G wgs(G) wfs(p) lips(G) fitInt`
  index groups  : `G (k idx*k)*G`
-/
namespace Skglm.Ops
open Skglm Skglm.Proto

def pGroups (p : Nat) : P (List (List (Fin p))) := do
  let G ← pNat
  let mut gs : Array (List (Fin p)) := Array.mkEmpty G
  for _ in [0:G] do
    gs := gs.push (← pWs p)
  pure gs.toList

def pGrpProb : P ((n : Nat) × (p : Nat) × GrpProb Float n p) := do
  let d ← pDF; let n ← pNat; let p ← pNat; let X ← pMatNP n p
  let sw ← pVecN n; let y ← pVecN n
  let pen ← pBlk; let groups ← pGroups p
  let wgs ← pList; let wfs ← pVecN p; let lips ← pList; let fi ← pBool
  pure ⟨n, p, { X := X, y := y, sw := sw, df := d, pen := pen, groups := groups, wgs := wgs,
                wfs := wfs, lips := lips, fitInt := fi }⟩

def pDir (n p : Nat) : P (PNDir Float n p) := do
  let dw ← pVecN p; let db ← pFloat; let Xd ← pVecN n
  pure { dw := dw, db := db, Xd := Xd }

def pMatRC (r c : Nat) : P (Fin r → Fin c → Float) := pMatNP r c

def pMTProb : P ((n : Nat) × (p : Nat) × (T : Nat) × MTProb Float n p T) := do
  let n ← pNat; let p ← pNat; let T ← pNat
  let X ← pMatNP n p; let Y ← pMatNP n T
  let pen ← pBlk; let lips ← pVecN p; let fi ← pBool
  pure ⟨n, p, T, { X := X, Y := Y, pen := pen, lips := lips, fitInt := fi }⟩

def pMTState (n p T : Nat) : P (MTState Float n p T) := do
  let W ← pMatNP p T; let b ← pVecN T; let XW ← pMatNP n T
  pure { W := W, b := b, XW := XW }

def fmtMTState {n p T : Nat} (s : MTState Float n p T) : String :=
  " ".intercalate ([fmtMat s.W, fmtVec s.b, fmtMat s.XW].filter (· ≠ ""))

def pGramProb : P ((p : Nat) × GramProb Float p) := do
  let p ← pNat; let G ← pMatNP p p; let q ← pVecN p; let c ← pFloat
  let pen ← pPen; let wts ← pVecN p
  pure ⟨p, { G := G, q := q, c := c, pen := pen, wts := wts }⟩

def pGramState (p : Nat) : P (GramState Float p) := do
  let w ← pVecN p; let g ← pVecN p
  pure { w := w, grad := g }

def fmtGramState {p : Nat} (s : GramState Float p) : String :=
  " ".intercalate ([fmtVec s.w, fmtVec s.grad].filter (· ≠ ""))

def solverOps2 (op : String) : Option (P String) :=
  match op with
  | "mt_epoch" => some do
      let ⟨n, p, T, P⟩ ← pMTProb; let s ← pMTState n p T; let ws ← pWs p
      pure (fmtMTState (P.mtEpoch s ws))
  | "mt_intercept" => some do
      let ⟨n, p, T, P⟩ ← pMTProb; let s ← pMTState n p T
      pure (fmtMTState (P.interceptMove s))
  | "mt_obj" => some do
      let ⟨n, p, T, P⟩ ← pMTProb; let s ← pMTState n p T
      pure (fmtE (P.objective s))
  | "mt_lips" => some do
      let n ← pNat; let p ← pNat; let X ← pMatNP n p
      pure (fmtVec (fun j => mtLipschitz X j))
  | "mt_grad" => some do
      let ⟨n, p, T, P⟩ ← pMTProb; let s ← pMTState n p T
      pure (fmtMat (fun j => P.gradientJ s.XW j))
  | "gram_ofdata" => some do   -- G (row-major), q, c
      let n ← pNat; let p ← pNat; let X ← pMatNP n p; let y ← pVecN n
      let P := GramProb.ofData X y (.l1 0 false) (fun _ => 1)
      pure (" ".intercalate ([fmtMat P.G, fmtVec P.q, fmt P.c].filter (· ≠ "")))
  | "gram_epoch" => some do
      let ⟨p, P⟩ ← pGramProb; let s ← pGramState p; let js ← pWs p
      pure (fmtGramState (P.gramEpoch s js))
  | "gram_epoch_greedy" => some do
      let ⟨p, P⟩ ← pGramProb; let s ← pGramState p
      pure (fmtGramState (P.gramEpochGreedy s))
  | "gram_obj" => some do      -- stored p_obj, acceptance-test value, stop criterion
      let ⟨p, P⟩ ← pGramProb; let s ← pGramState p
      pure (fmtE (P.objective s.w) ++ " " ++ fmtE (P.objNoConst s.w) ++ " " ++ fmtE (P.stopCrit s))
  | "gram_init" => some do
      let ⟨p, P⟩ ← pGramProb; let w0 ← pVecN p
      pure (fmtGramState (P.initWarm w0))
  | _ => none

def solverOps (op : String) : Option (P String) :=
  match op with
  | "bcd_epoch" => some do
      let ⟨n, p, P⟩ ← pGrpProb; let s ← pState n p; let ws ← pNatList
      pure (fmtState (P.bcdEpoch s ws))
  | "bcd_intercept" => some do
      let ⟨n, p, P⟩ ← pGrpProb; let s ← pState n p
      pure (fmtState (P.interceptMove s))
  | "bcd_obj" => some do
      let ⟨n, p, P⟩ ← pGrpProb; let s ← pState n p
      pure (fmtE (P.objective s))
  | "bcd_pen" => some do
      let ⟨n, p, P⟩ ← pGrpProb; let s ← pState n p
      pure (fmtE (P.penValue s.w))
  | "bcd_extrap" => some do   -- extrapolated point, both objectives, state after acceptance
      let ⟨n, p, P⟩ ← pGrpProb; let cur ← pState n p
      let K ← pNat
      let mut buf : Array (CDState Float n p) := Array.mkEmpty K
      for _ in [0:K] do
        buf := buf.push (← pState n p)
      let c ← pVecN K
      let b := buf
      let acc := GrpProb.extrapPoint (fun k => b.getD k.1 cur) c
      let out := P.acceptMove cur acc
      pure (fmtState acc ++ " " ++ fmtE (P.objective cur) ++ " " ++ fmtE (P.objective acc) ++ " " ++
            fmtState out)
  | "pn_backtrack" => some do   -- state after the line search, and the test value at step 1
      let ⟨n, p, P⟩ ← pProb; let s ← pState n p; let d ← pDir n p; let fuel ← pNat
      pure (fmtState (P.backtrack fuel s d) ++ " " ++ fmtE (P.lineSearchTest s d 1) ++ " " ++
            fmtB (P.lineSearchAccept s d 1))
  | "pn_direction" => some do   -- `_descent_direction`: dw (all features), db, X_delta_w, lipschitz (all features)
      let ⟨n, p, P⟩ ← pProb; let s ← pState n p; let ws ← pWs p; let k ← pNat
      let d := P.descentDirection s ws k
      pure (fmtVec d.dw ++ " " ++ fmt d.db ++ " " ++ fmtVec d.Xd ++ " " ++ fmtVec (P.descentLips s))
  | "gpn_backtrack" => some do   -- group line search: state after the search, test value and decision at step 1
      let ⟨n, p, P⟩ ← pGrpProb; let s ← pState n p; let ws ← pNatList
      let dws ← pList; let db ← pFloat; let Xd ← pVecN n; let fuel ← pNat
      let d : GPNDir Float n := { dws := dws, db := db, Xd := Xd }
      pure (fmtState (P.gpnBacktrack fuel P.groups ws s d) ++ " " ++
            fmtE (P.gpnLineSearchTest P.groups ws s d 1) ++ " " ++ fmtB (P.gpnLineSearchAccept P.groups ws s d 1))
  | "fista_solve" => some do   -- `FISTA._solve`: w, stop_crit, objective history
      let ⟨n, p, P⟩ ← pProb; let L ← pFloat; let tol ← pFloat; let k ← pNat
      let hasInit ← pBool; let w0 ← pVecN p
      let F : FistaProb Float n p := { X := P.X, y := P.y, sw := P.sw, df := P.df, pen := P.pen, wts := P.wts, L := L }
      let r := F.solve false tol k (if hasInit then some w0 else none)
      pure (" ".intercalate ([fmtVec r.1.w, fmtE r.2.1, " ".intercalate (r.2.2.map fmtE)].filter (· ≠ "")))
  | "lbfgs_at" => some do   -- objective, stop criterion, jac (dense) and stop criterion, jac (CSC) at a point
      let d ← pDF; let n ← pNat; let p ← pNat; let X ← pMatNP n p; let M ← pCSC n p
      let sw ← pVecN n; let y ← pVecN n; let alpha ← pFloat; let w ← pVecN p
      let P : LbfgsProb Float n p := { X := X, y := y, sw := sw, df := d, alpha := alpha }
      pure (fmt (P.lbfgsObjective w) ++ " " ++ fmt (P.lbfgsStop w) ++ " " ++ fmt (P.lbfgsObjectiveSparse M w) ++ " " ++
            fmt (P.lbfgsStopSparse M w) ++ " " ++ fmtVec (P.lbfgsJac w) ++ " " ++ fmtVec (P.lbfgsJacSparse M w))
  | "pdcd_sub" => some do   -- `PDCD_WS._solve_subproblem`: w, Xw, z, z_bar after the epochs; stop criterion; objective
      let dk ← tok
      let df : PDDatafit Float ← (match dk with
        | "sqrt" => pure PDDatafit.sqrtQuad
        | "pinball" => do let q ← pFloat; pure (PDDatafit.pinball q)
        | _ => throw s!"pd-datafit:{dk}")
      let n ← pNat; let p ← pNat; let X ← pMatNP n p; let y ← pVecN n
      let pen ← pPen; let wts ← pVecN p; let tau ← pVecN p; let sigma ← pFloat
      let w ← pVecN p; let Xw ← pVecN n; let z ← pVecN n; let zb ← pVecN n
      let ws ← pWs p; let maxEp ← pNat; let tolIn ← pFloat
      let P : PDProb Float n p := { X := X, y := y, df := df, pen := pen, wts := wts, tau := tau, sigma := sigma }
      let s := P.solveSubproblem ws maxEp tolIn { w := w, Xw := Xw, z := z, zbar := zb }
      pure (fmtVec s.w ++ " " ++ fmtVec s.Xw ++ " " ++ fmtVec s.z ++ " " ++ fmtVec s.zbar ++ " " ++ fmt (P.stopCrit s) ++ " " ++
            fmtE (P.objective s))
  | "pn_grad" => some do
      let ⟨n, p, P⟩ ← pProb; let s ← pState n p
      pure (fmtVec (P.pnGrad s.Xw))
  | "cox_sweeps" => some do     -- B v, B^T v, A v, A^T v
      let n ← pNat; let T ← pGroups n; let H ← pGroups n; let v ← pVecN n
      pure (fmtVec (Cox.B_dot_vec T v) ++ " " ++ fmtVec (Cox.B_T_dot_vec T v) ++ " " ++
            fmtVec (Cox.A_dot_vec H v) ++ " " ++ fmtVec (Cox.AT_dot_vec H v))
  | "cox_value" => some do
      let n ← pNat; let T ← pGroups n; let H ← pGroups n; let ef ← pBool
      let s ← pVecN n; let u ← pVecN n
      pure (fmt (Cox.coxValue ef T H s u))
  | "cox_rawgrad" => some do
      let n ← pNat; let T ← pGroups n; let H ← pGroups n; let ef ← pBool
      let s ← pVecN n; let u ← pVecN n
      pure (fmtVec (Cox.coxRawGrad ef T H s u))
  | _ => none

end Skglm.Ops
