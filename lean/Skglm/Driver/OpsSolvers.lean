import Skglm.Driver.OpsCD
import Skglm.Model.BCD
import Skglm.Model.ProxNewton
import Skglm.Model.Cox
/-
  Driver operations for the block coordinate-descent moves (GroupBCD), the prox-Newton backtracking
  line search and the Cox sweeps.

  group problem : `<df> n p X(row-major) sw y <blkpen> G (k idx*k)*G wgs(G) wfs(p) lips(G) fitInt`
  index groups  : `G (k idx*k)*G`
-/
namespace Skglm.Ops
open Skglm Skglm.Proto

def pGroups (p : Nat) : P (List (List (Fin p))) := do
  let G ← pNat
  let mut gs : Array (List (Fin p)) := Array.mkEmpty G
  for _ in [0:G] do
    gs := gs.push (← pWs p)
  pure gs.toList

def pGrpProb : P ((n : Nat) × (p : Nat) × GrpProb Float n p) := do
  let d ← pDF; let n ← pNat; let p ← pNat; let X ← pMatNP n p
  let sw ← pVecN n; let y ← pVecN n
  let pen ← pBlk; let groups ← pGroups p
  let wgs ← pList; let wfs ← pVecN p; let lips ← pList; let fi ← pBool
  pure ⟨n, p, { X := X, y := y, sw := sw, df := d, pen := pen, groups := groups, wgs := wgs,
                wfs := wfs, lips := lips, fitInt := fi }⟩

def pDir (n p : Nat) : P (PNDir Float n p) := do
  let dw ← pVecN p; let db ← pFloat; let Xd ← pVecN n
  pure { dw := dw, db := db, Xd := Xd }

def solverOps (op : String) : Option (P String) :=
  match op with
  | "bcd_epoch" => some do
      let ⟨n, p, P⟩ ← pGrpProb; let s ← pState n p; let ws ← pNatList
      pure (fmtState (P.bcdEpoch s ws))
  | "bcd_intercept" => some do
      let ⟨n, p, P⟩ ← pGrpProb; let s ← pState n p
      pure (fmtState (P.interceptMove s))
  | "bcd_obj" => some do
      let ⟨n, p, P⟩ ← pGrpProb; let s ← pState n p
      pure (fmtE (P.objective s))
  | "bcd_pen" => some do
      let ⟨n, p, P⟩ ← pGrpProb; let s ← pState n p
      pure (fmtE (P.penValue s.w))
  | "bcd_extrap" => some do   -- extrapolated point, both objectives, state after acceptance
      let ⟨n, p, P⟩ ← pGrpProb; let cur ← pState n p
      let K ← pNat
      let mut buf : Array (CDState Float n p) := Array.mkEmpty K
      for _ in [0:K] do
        buf := buf.push (← pState n p)
      let c ← pVecN K
      let b := buf
      let acc := GrpProb.extrapPoint (fun k => b.getD k.1 cur) c
      let out := P.acceptMove cur acc
      pure (fmtState acc ++ " " ++ fmtE (P.objective cur) ++ " " ++ fmtE (P.objective acc) ++ " " ++
            fmtState out)
  | "pn_backtrack" => some do   -- state after the line search, and the test value at step 1
      let ⟨n, p, P⟩ ← pProb; let s ← pState n p; let d ← pDir n p; let fuel ← pNat
      pure (fmtState (P.backtrack fuel s d) ++ " " ++ fmtE (P.lineSearchTest s d 1) ++ " " ++
            fmtB (P.lineSearchAccept s d 1))
  | "pn_grad" => some do
      let ⟨n, p, P⟩ ← pProb; let s ← pState n p
      pure (fmtVec (P.pnGrad s.Xw))
  | "cox_sweeps" => some do     -- B v, B^T v, A v, A^T v
      let n ← pNat; let T ← pGroups n; let H ← pGroups n; let v ← pVecN n
      pure (fmtVec (Cox.B_dot_vec T v) ++ " " ++ fmtVec (Cox.B_T_dot_vec T v) ++ " " ++
            fmtVec (Cox.A_dot_vec H v) ++ " " ++ fmtVec (Cox.AT_dot_vec H v))
  | "cox_value" => some do
      let n ← pNat; let T ← pGroups n; let H ← pGroups n; let ef ← pBool
      let s ← pVecN n; let u ← pVecN n
      pure (fmt (Cox.coxValue ef T H s u))
  | "cox_rawgrad" => some do
      let n ← pNat; let T ← pGroups n; let H ← pGroups n; let ef ← pBool
      let s ← pVecN n; let u ← pVecN n
      pure (fmtVec (Cox.coxRawGrad ef T H s u))
  | _ => none

end Skglm.Ops
