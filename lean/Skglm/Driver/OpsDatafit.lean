import Skglm.Driver.Proto
import Skglm.Model.Datafits
namespace Skglm.Ops
open Skglm Skglm.Proto

def pDF : P (DF Float) := do
  let t ← tok
  match t with
  | "quadratic" => pure .quadratic
  | "wquadratic" => pure .wquadratic
  | "logistic" => pure .logistic
  | "huber" => do let d ← pFloat; pure (.huber d)
  | "poisson" => pure .poisson
  | "gamma" => pure .gamma
  | "svc" => pure .svc
  | _ => throw s!"df:{t}"

def dfOps (op : String) : Option (P String) :=
  match op with
  | "df_value" => some do
      let d ← pDF; let n ← pNat; let sw ← pVecN n; let y ← pVecN n; let u ← pVecN n
      let ⟨_, w⟩ ← pVec
      pure (fmt (d.value sw y u w))
  | "df_rawgrad" => some do
      let d ← pDF; let n ← pNat; let sw ← pVecN n; let y ← pVecN n; let u ← pVecN n
      pure (fmtVec (d.rawGrad sw y u))
  | "df_rawhess" => some do
      let d ← pDF; let n ← pNat; let sw ← pVecN n; let y ← pVecN n; let u ← pVecN n
      pure (fmtVec (d.rawHess sw y u))
  | "df_istep" => some do
      let d ← pDF; let n ← pNat; let sw ← pVecN n; let y ← pVecN n; let u ← pVecN n
      pure (fmt (d.interceptStep sw y u))
  | "df_grad" => some do   -- all coordinates
      let d ← pDF; let n ← pNat; let p ← pNat; let X ← pMatNP n p
      let sw ← pVecN n; let y ← pVecN n; let u ← pVecN n
      pure (fmtVec (fun j => d.gradScalar X sw y u j))
  | "df_lips" => some do
      let d ← pDF; let n ← pNat; let p ← pNat; let X ← pMatNP n p; let sw ← pVecN n
      pure (fmtVec (fun j => d.lipschitz X sw j))
  | "df_grad_sp" => some do
      let d ← pDF; let n ← pNat; let p ← pNat; let M ← pCSC n p
      let sw ← pVecN n; let y ← pVecN n; let u ← pVecN n
      pure (fmtVec (fun j => d.gradScalarSparse M sw y u j))
  | "df_lips_sp" => some do
      let d ← pDF; let n ← pNat; let p ← pNat; let M ← pCSC n p; let sw ← pVecN n
      pure (fmtVec (fun j => d.lipschitzSparse M sw j))
  | "csc_todense" => some do
      let n ← pNat; let p ← pNat; let M ← pCSC n p
      pure (fmtMat M.toDense)
  | _ => none

end Skglm.Ops
