import Skglm.Driver.Proto
import Skglm.Model.Datafits
import Skglm.Model.BlockPenalties
namespace Skglm.Ops
open Skglm Skglm.Proto

def pDF : P (DF Float) := do
  let t ← tok
  match t with
  | "quadratic" => pure .quadratic
  | "wquadratic" => pure .wquadratic
  | "logistic" => pure .logistic
  | "huber" => do let d ← pFloat; pure (.huber d)
  | "poisson" => pure .poisson
  | "gamma" => pure .gamma
  | "svc" => pure .svc
  | _ => throw s!"df:{t}"

def dfOps (op : String) : Option (P String) :=
  match op with
  | "df_value" => some do
      let d ← pDF; let n ← pNat; let sw ← pVecN n; let y ← pVecN n; let u ← pVecN n
      let ⟨_, w⟩ ← pVec
      pure (fmt (d.value sw y u w))
  | "df_rawgrad" => some do
      let d ← pDF; let n ← pNat; let sw ← pVecN n; let y ← pVecN n; let u ← pVecN n
      pure (fmtVec (d.rawGrad sw y u))
  | "df_rawhess" => some do
      let d ← pDF; let n ← pNat; let sw ← pVecN n; let y ← pVecN n; let u ← pVecN n
      pure (fmtVec (d.rawHess sw y u))
  | "df_istep" => some do
      let d ← pDF; let n ← pNat; let sw ← pVecN n; let y ← pVecN n; let u ← pVecN n
      pure (fmt (d.interceptStep sw y u))
  | "df_grad" => some do   -- all coordinates
      let d ← pDF; let n ← pNat; let p ← pNat; let X ← pMatNP n p
      let sw ← pVecN n; let y ← pVecN n; let u ← pVecN n
      pure (fmtVec (fun j => d.gradScalar X sw y u j))
  | "df_lips" => some do
      let d ← pDF; let n ← pNat; let p ← pNat; let X ← pMatNP n p; let sw ← pVecN n
      pure (fmtVec (fun j => d.lipschitz X sw j))
  | "df_grad_sp" => some do
      let d ← pDF; let n ← pNat; let p ← pNat; let M ← pCSC n p
      let sw ← pVecN n; let y ← pVecN n; let u ← pVecN n
      pure (fmtVec (fun j => d.gradScalarSparse M sw y u j))
  | "df_lips_sp" => some do
      let d ← pDF; let n ← pNat; let p ← pNat; let M ← pCSC n p; let sw ← pVecN n
      pure (fmtVec (fun j => d.lipschitzSparse M sw j))
  | "csc_todense" => some do
      let n ← pNat; let p ← pNat; let M ← pCSC n p
      pure (fmtMat M.toDense)
  | _ => none

end Skglm.Ops

namespace Skglm.Ops
open Skglm Skglm.Proto

def pBlk : P (BlkPen Float) := do
  let t ← tok
  match t with
  | "l21" => do let a ← pFloat; pure (.l21 a)
  | "l205" => do let a ← pFloat; pure (.l205 a)
  | "bmcp" => do let a ← pFloat; let g ← pFloat; pure (.bmcp a g)
  | "bscad" => do let a ← pFloat; let g ← pFloat; pure (.bscad a g)
  | "wgl2" => do let a ← pFloat; let p ← pBool; pure (.wgl2 a p)
  | "wl1gl2" => do let a ← pFloat; pure (.wl1gl2 a)
  | _ => throw s!"blk:{t}"

def blkOps (op : String) : Option (P String) :=
  match op with
  | "blk_prox" => some do
      let pen ← pBlk; let wg ← pFloat; let ⟨k, wf⟩ ← pVec; let x ← pVecN k; let s ← pFloat
      pure (fmtVec (pen.proxBlk wg wf x s))
  | "blk_pen" => some do
      let pen ← pBlk; let wg ← pFloat; let ⟨k, wf⟩ ← pVec; let w ← pVecN k
      pure (fmtE (pen.penBlk wg wf w))
  | "blk_sd" => some do
      let pen ← pBlk; let wg ← pFloat; let ⟨k, w⟩ ← pVec; let g ← pVecN k
      match pen.sdBlk wg w g with
      | some r => pure (fmtE r)
      | none => pure "err:no-method"
  | _ => none
end Skglm.Ops
