import Skglm.Driver.Ops
import Skglm.Driver.OpsDatafit
import Skglm.Model.Estimators
import Skglm.Model.Estimators2
/-
  Driver operations for the estimator glue: what `fit` hands to the solver, and the classifier
  conventions.
-/
namespace Skglm.Ops
open Skglm Skglm.Proto

def pEst : P (Est Float) := do
  let t ← tok
  match t with
  | "Lasso" => do let a ← pFloat; let p ← pBool; let fi ← pBool; pure (.lasso a p fi)
  | "WeightedLasso" => do let a ← pFloat; let hw ← pBool; let p ← pBool; let fi ← pBool; pure (.wlasso a hw p fi)
  | "ElasticNet" => do let a ← pFloat; let r ← pFloat; let p ← pBool; let fi ← pBool; pure (.enet a r p fi)
  | "MCPRegression" => do
      let a ← pFloat; let g ← pFloat; let hw ← pBool; let p ← pBool; let fi ← pBool; pure (.mcpreg a g hw p fi)
  | "SparseLogisticRegression" => do let a ← pFloat; let fi ← pBool; pure (.slr a fi)
  | "LinearSVC" => do let c ← pFloat; pure (.svc c)
  | _ => throw s!"est:{t}"

def dfName : DF Float → String
  | .quadratic => "Quadratic" | .wquadratic => "WeightedQuadratic" | .logistic => "Logistic"
  | .huber _ => "Huber" | .poisson => "Poisson" | .gamma => "Gamma" | .svc => "QuadraticSVC"

/-- class name, alpha, second hyper-parameter (l1_ratio / gamma, `nan` if none), positive -/
def penDesc : SepPen Float → String
  | .l1 a p => s!"L1 {fmt a} nan {fmtB p}"
  | .l1l2 a r p => s!"L1_plus_L2 {fmt a} {fmt r} {fmtB p}"
  | .wl1 a p => s!"WeightedL1 {fmt a} nan {fmtB p}"
  | .mcp a g p => s!"MCPenalty {fmt a} {fmt g} {fmtB p}"
  | .wmcp a g p => s!"WeightedMCPenalty {fmt a} {fmt g} {fmtB p}"
  | .box a => s!"IndicatorBox {fmt a} nan F"
  | _ => "other nan nan F"

def estOps (op : String) : Option (P String) :=
  match op with
  | "plumb" => some do
      let e ← pEst
      pure s!"{dfName e.datafit} {penDesc e.penalty} {fmtB e.fitInt} {fmtB e.usesWeights}"
  | "clf" => some do   -- decision value -> predicted index, binary probability (code path), expit
      let d ← pFloat
      pure s!"{fmtB (predictBinary d)} {fmt (probaBinary d).1} {fmt (probaBinary d).2} {fmt (sigmoidProba d)}"
  | "cache_hist" => some do   -- requests `(cls spec f32)*` -> identity of the class returned by each
      let k ← pNat
      let mut reqs : Array CacheKey := Array.mkEmpty k
      for _ in [0:k] do
        let c ← pNat; let sp ← pNat; let f ← pBool
        reqs := reqs.push { cls := c, spec := sp, f32 := f }
      pure (" ".intercalate ((cacheIds reqs.toList).map (fun o => match o with
        | some i => "i" ++ toString i
        | none => "none")))
  | "grp_converter" => some do   -- `grp_converter(groups, n_features)`: grp_indices then grp_ptr, or the error
      let p ← pNat; let form ← tok
      let arg : GroupsArg p ← (match form with
        | "size" => do let k ← pNat; pure (GroupsArg.size k)
        | "sizes" => do let l ← pNatList; pure (GroupsArg.sizes l)
        | "lists" => do
            let G ← pNat
            let mut gs : Array (List (Fin p)) := Array.mkEmpty G
            for _ in [0:G] do
              let k ← pNat
              let mut g : Array (Fin p) := Array.mkEmpty k
              for _ in [0:k] do
                g := g.push (← pFin p)
              gs := gs.push g.toList
            pure (GroupsArg.lists gs.toList)
        | _ => throw s!"groups-form:{form}")
      match grpConverter arg with
      | .ok (idx, ptr) =>
          pure (" ".intercalate (["ok", toString idx.length] ++ idx.map (fun j => toString j.1) ++
                                 [toString ptr.length] ++ ptr.map toString))
      | .error .zeroDivision => pure "err:ZeroDivisionError"
      | .error .notMultiple => pure "err:ValueError"
      | .error .emptyList => pure "err:IndexError"
      | .error .countMismatch => pure "err:ValueError"
  | "svc_primal" => some do
      let n ← pNat; let p ← pNat; let X ← pMatNP n p; let ypm ← pVecN n; let dual ← pVecN n
      pure (fmtVec (svcPrimal X ypm dual))
  | _ => none

end Skglm.Ops
