import Skglm.Driver.Proto
import Skglm.Model.Validation
namespace Skglm.Ops
open Skglm.Proto Skglm.Gen

/-- `validate <Solver> <Datafit|None> <Penalty> <sparse> <subdiff>` -> T (accepted) / F (refused) -/
def valOps (op : String) : Option (P String) :=
  match op with
  | "validate" => some do
      let s ← tok; let d ← tok; let p ← tok; let sp ← pBool; let sd ← pBool
      match SolverC.ofName s, PenaltyC.ofName p with
      | some s, some p =>
        if d == "None" then pure (fmtB (validate s none p sp sd))
        else match DatafitC.ofName d with
          | some d => pure (fmtB (validate s (some d) p sp sd))
          | none => throw s!"datafit:{d}"
      | _, _ => throw "solver-or-penalty"
  | _ => none
end Skglm.Ops
