import Skglm.Driver.Ops
import Skglm.Driver.OpsDatafit
import Skglm.Model.CD
/-
  Driver operations for the coordinate-descent solver moves.

  problem : `<df> n p X(row-major) sw y <pen> wts fitInt`
  state   : `w(p) b Xw(n)`
-/
namespace Skglm.Ops
open Skglm Skglm.Proto

def pProb : P ((n : Nat) × (p : Nat) × CDProb Float n p) := do
  let d ← pDF; let n ← pNat; let p ← pNat; let X ← pMatNP n p
  let sw ← pVecN n; let y ← pVecN n
  let pen ← pPen; let wts ← pVecN p; let fi ← pBool
  pure ⟨n, p, { X := X, y := y, sw := sw, df := d, pen := pen, wts := wts, fitInt := fi }⟩

def pState (n p : Nat) : P (CDState Float n p) := do
  let w ← pVecN p; let b ← pFloat; let u ← pVecN n
  pure { w := w, b := b, Xw := u }

def pWs (p : Nat) : P (List (Fin p)) := do
  let k ← pNat
  let mut l : Array (Fin p) := Array.mkEmpty k
  for _ in [0:k] do
    l := l.push (← pFin p)
  pure l.toList

def fmtState {n p : Nat} (s : CDState Float n p) : String :=
  fmtVec s.w ++ " " ++ fmt s.b ++ (if n = 0 then "" else " " ++ fmtVec s.Xw)

def cdOps (op : String) : Option (P String) :=
  match op with
  | "cd_epoch" => some do
      let ⟨n, p, P⟩ ← pProb; let s ← pState n p; let ws ← pWs p
      pure (fmtState (P.cdEpoch s ws))
  | "cd_epoch_sp" => some do
      let ⟨n, p, P⟩ ← pProb; let M ← pCSC n p; let s ← pState n p; let ws ← pWs p
      pure (fmtState (P.cdEpochSparse M s ws))
  | "cd_intercept" => some do
      let ⟨n, p, P⟩ ← pProb; let s ← pState n p
      pure (fmtState (P.interceptMove s))
  | "cd_obj" => some do
      let ⟨n, p, P⟩ ← pProb; let s ← pState n p
      pure (fmtE (P.objective s))
  | "cd_head" => some do    -- scores of all features, intercept_opt, stop_crit, ws_size
      let ⟨n, p, P⟩ ← pProb; let s ← pState n p; let fp ← pBool; let p0 ← pNat
      let g := P.grad s
      let sc := " ".intercalate (List.ofFn (fun j => fmtE (P.score fp s (g j) j)))
      pure (sc ++ " " ++ fmt (P.interceptOpt s) ++ " " ++ fmtE (P.stopCrit fp s) ++ " " ++
            "i" ++ toString (P.wsSize p0 s))
  | "cd_scores_ws" => some do   -- stop_crit_in over a working set
      let ⟨n, p, P⟩ ← pProb; let s ← pState n p; let fp ← pBool; let ws ← pWs p
      let g := P.grad s
      let m := ws.foldl (fun acc j => Ext.max acc (P.score fp s (g j) j)) (.fin 0)
      pure (fmtE m)
  | "cd_extrap" => some do  -- extrapolated point + both objectives + state after acceptance
      let ⟨n, p, P⟩ ← pProb; let cur ← pState n p; let ws ← pWs p
      let K ← pNat
      let mut buf : Array (CDState Float n p) := Array.mkEmpty K
      for _ in [0:K] do
        buf := buf.push (← pState n p)
      let c ← pVecN K
      let b := buf
      let inWs : Fin p → Bool := fun j => ws.contains j
      let acc := CDProb.extrapPoint inWs cur (fun k => b.getD k.1 cur) c
      let out := P.acceptMove cur acc
      pure (fmtState acc ++ " " ++ fmtE (P.objective cur) ++ " " ++ fmtE (P.objective acc) ++ " " ++
            fmtState out)
  | _ => none

end Skglm.Ops
