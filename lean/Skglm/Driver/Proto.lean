import Skglm.Scalar
import Skglm.Model.Datafits
/-
  Line protocol of the model driver.

  request : `op arg ...`   (whitespace separated tokens)
  floats  : decimal `UInt64` bit pattern of the IEEE double (never decimal text)
  bools   : `0` / `1`;  naturals / ints: decimal
  vectors : `n x1 ... xn`;  matrices: `n p` then `n*p` entries row-major
  response: tokens in the same encoding; non-finite floats are printed as `nan`, `inf`, `-inf`;
            `err:<reason>` when the model refuses the request.
-/
namespace Skglm.Proto

abbrev P := StateT (List String) (Except String)

def tok : P String := do
  match (← get) with
  | [] => throw "eof"
  | t :: ts => set ts; pure t

def pNat : P Nat := do
  let t ← tok
  match t.toNat? with
  | some n => pure n
  | none => throw s!"nat:{t}"

def pInt : P Int := do
  let t ← tok
  match t.toInt? with
  | some n => pure n
  | none => throw s!"int:{t}"

def pBool : P Bool := do
  let t ← tok
  if t == "1" then pure true else if t == "0" then pure false else throw s!"bool:{t}"

def pFloat : P Float := do
  let n ← pNat
  pure (Float.ofBits n.toUInt64)

def pVecN (n : Nat) : P (Fin n → Float) := do
  let mut a : Array Float := Array.mkEmpty n
  for _ in [0:n] do
    a := a.push (← pFloat)
  let a' := a
  pure (fun i => a'.getD i.1 0.0)

/-- a vector with its length -/
def pVec : P ((n : Nat) × (Fin n → Float)) := do
  let n ← pNat
  let v ← pVecN n
  pure ⟨n, v⟩

def pList : P (List Float) := do
  let n ← pNat
  let mut a : Array Float := Array.mkEmpty n
  for _ in [0:n] do
    a := a.push (← pFloat)
  pure a.toList

def pNatList : P (List Nat) := do
  let n ← pNat
  let mut a : Array Nat := Array.mkEmpty n
  for _ in [0:n] do
    a := a.push (← pNat)
  pure a.toList

/-- dense matrix `n p` + row-major entries, as `Fin n → Fin p → Float` -/
def pMatNP (n p : Nat) : P (Fin n → Fin p → Float) := do
  let mut a : Array Float := Array.mkEmpty (n * p)
  for _ in [0:n * p] do
    a := a.push (← pFloat)
  let a' := a
  pure (fun i j => a'.getD (i.1 * p + j.1) 0.0)

def fmt (x : Float) : String :=
  if x.isNaN then "nan"
  else if x.isInf then (if x < 0 then "-inf" else "inf")
  else toString x.toBits.toNat

def fmtB (b : Bool) : String := if b then "T" else "F"

def fmtE (x : Ext Float) : String :=
  match x with
  | .fin a => fmt a
  | .inf => "inf"

def fmtVec {n : Nat} (v : Fin n → Float) : String :=
  " ".intercalate ((List.ofFn v).map fmt)

def fmtList (v : List Float) : String := " ".intercalate (v.map fmt)

end Skglm.Proto

namespace Skglm.Proto
/-- CSC matrix with `n` rows and `p` columns: for each column `k (row value)*k` -/
def pCSC (n p : Nat) : P (CSC Float n p) := do
  let mut cols : Array (List (Fin n × Float)) := Array.mkEmpty p
  for _ in [0:p] do
    let k ← pNat
    let mut l : Array (Fin n × Float) := Array.mkEmpty k
    for _ in [0:k] do
      let r ← pNat
      let v ← pFloat
      if h : r < n then l := l.push (⟨r, h⟩, v) else throw "csc-row-out-of-range"
    cols := cols.push l.toList
  let c := cols
  pure (fun j => c.getD j.1 [])

def pFin (n : Nat) : P (Fin n) := do
  let k ← pNat
  if h : k < n then pure ⟨k, h⟩ else throw "index-out-of-range"

def fmtMat {n p : Nat} (m : Fin n → Fin p → Float) : String :=
  " ".intercalate ((List.ofFn (fun i => fmtVec (m i))).filter (· ≠ ""))
end Skglm.Proto
