import Skglm.Real
import Skglm.Model.Penalties
/-
  Specification side: the *documented* penalty of one coordinate, written from the class
  docstrings (not from the code's `value`), with the positivity / box constraint as an
  indicator (`none` = +∞).  The property theorems relate the modelled kernels
  (`SepPen.prox1`, `SepPen.sd1`, `SepPen.pen1`) to these.
-/
namespace Skglm.Spec
open Skglm

/-- documented MCP of `t` (`t` may be negative; the docstring is for `x = |t|`) -/
noncomputable def mcp (a g t : ℝ) : ℝ :=
  if |t| ≤ a * g then a * |t| - t ^ 2 / (2 * g) else g * a ^ 2 / 2

/-- documented SCAD -/
noncomputable def scad (a g t : ℝ) : ℝ :=
  if |t| ≤ a then a * |t|
  else if |t| ≤ a * g then (2 * a * g * |t| - t ^ 2 - a ^ 2) / (2 * (g - 1))
  else a ^ 2 * (g + 1) / 2

/-- the documented penalty of one coordinate, `none` = +∞ (constraint violated) -/
noncomputable def pen (p : SepPen ℝ) (wt u : ℝ) : Option ℝ :=
  if p.positive = true ∧ u < 0 then none else
  match p with
  | .l1 a _ => some (a * |u|)
  | .l1l2 a r _ => some (a * (r * |u| + (1 - r) * u ^ 2 / 2))
  | .wl1 a _ => some (a * wt * |u|)
  | .mcp a g _ => some (mcp a g u)
  | .wmcp a g _ => some (wt * mcp a g u)
  | .scad a g => some (scad a g u)
  | .box a => if 0 ≤ u ∧ u ≤ a then some 0 else none
  | .l05 a => some (a * Real.sqrt |u|)
  | .l23 a => some (a * |u| ^ ((2:ℝ) / 3))
  | .logsum a e => some (a * Real.log (1 + |u| / e))
  | .pos => some 0

/-- `u` is at least as good as `v` for the prox objective `½ (·-x)² + s·pen(·)` -/
def ProxLe (p : SepPen ℝ) (wt x s u v : ℝ) : Prop :=
  match pen p wt u, pen p wt v with
  | some pu, some pv => (u - x) ^ 2 / 2 + s * pu ≤ (v - x) ^ 2 / 2 + s * pv
  | some _, none => True
  | none, _ => False

/-- hyper-parameters and step inside the range in which the prox problem is well posed -/
def Admissible (p : SepPen ℝ) (wt s : ℝ) : Prop :=
  0 < s ∧ 0 ≤ wt ∧
  match p with
  | .l1 a _ => 0 ≤ a
  | .l1l2 a r _ => 0 ≤ a ∧ 0 ≤ r ∧ r ≤ 1
  | .wl1 a _ => 0 ≤ a
  | .mcp a g _ => 0 ≤ a ∧ 0 < g ∧ s < g
  | .wmcp a g _ => 0 ≤ a ∧ 0 < g ∧ wt * s < g
  | .scad a g => 0 ≤ a ∧ 2 < g ∧ s < g - 1
  | .box a => 0 ≤ a
  | .l05 a => 0 ≤ a
  | .l23 a => 0 ≤ a
  | .logsum a e => 0 ≤ a ∧ 0 < e
  | .pos => True

/-- regular (Fréchet) sub-gradient of an extended-valued function of one variable -/
def IsRegSubgrad (φ : ℝ → Option ℝ) (w g : ℝ) : Prop :=
  ∃ fw, φ w = some fw ∧
    ∀ ε > 0, ∃ δ > 0, ∀ v, |v - w| < δ →
      match φ v with
      | some fv => fw + g * (v - w) - ε * |v - w| ≤ fv
      | none => True

end Skglm.Spec
