import Skglm.Spec.Solver
import Skglm.Model.Estimators
/-
  Specification side for the estimators: the optimisation objective as written in each
  estimator's class docstring in `skglm/estimators.py`, transcribed with explicit sums
  (independently of `DF.value`, `Spec.pen`).  `b` is the fitted intercept (`intercept_`), which
  the code adds to the linear predictor; it is `0` when `fit_intercept=False`.
-/
namespace Skglm.Spec
open Skglm
variable {n p : Nat}

/-- the MCP of the `MCPRegression` docstring, for `x ≥ 0` -/
noncomputable def docMcp (alpha gamma x : ℝ) : ℝ :=
  if x ≤ alpha * gamma then alpha * x - x ^ 2 / (2 * gamma) else gamma * alpha ^ 2 / 2

/-- `1 / (2 n_samples) ‖y - (Xw + b)‖²` -/
noncomputable def docLeastSquares (X : Fin n → Fin p → ℝ) (y : Fin n → ℝ) (w : Fin p → ℝ)
    (b : ℝ) : ℝ :=
  1 / (2 * (n : ℝ)) * ∑ i, (y i - ((∑ j, X i j * w j) + b)) ^ 2

/-- the documented objective of each estimator at `(w, b)` -/
noncomputable def docObjective (e : Est ℝ) (X : Fin n → Fin p → ℝ) (y : Fin n → ℝ)
    (wts : Fin p → ℝ) (w : Fin p → ℝ) (b : ℝ) : ℝ :=
  match e with
  | .lasso alpha _ _ => docLeastSquares X y w b + alpha * ∑ j, |w j|
  | .wlasso alpha hasW _ _ =>
      docLeastSquares X y w b +
        (if hasW then alpha * ∑ j, wts j * |w j| else alpha * ∑ j, |w j|)
  | .enet alpha l1_ratio _ _ =>
      docLeastSquares X y w b + l1_ratio * alpha * ∑ j, |w j|
        + (1 - l1_ratio) * alpha / 2 * ∑ j, (w j) ^ 2
  | .mcpreg alpha gamma hasW _ _ =>
      docLeastSquares X y w b +
        (if hasW then ∑ j, wts j * docMcp alpha gamma |w j| else ∑ j, docMcp alpha gamma |w j|)
  | .slr alpha _ =>
      1 / (n : ℝ) * ∑ i, Real.log (1 + Real.exp (-(y i * ((∑ j, X i j * w j) + b))))
        + alpha * ∑ j, |w j|
  | .svc _ =>
      -- dual objective; the model's `X` is `(yX)ᵀ`, `w` the dual variable, no intercept;
      -- the box constraint `0 ≤ w_i ≤ C` is the feasibility of `w`
      1 / 2 * ∑ i, (∑ j, X i j * w j) ^ 2 - ∑ j, w j

end Skglm.Spec
