import Skglm.Real
import Skglm.Model.Datafits
/-
  Specification side for the datafits: the loss formulas as written in the class docstrings
  (transcribed independently of the model's `loss1`), over exact reals.
-/
namespace Skglm.Spec
open Skglm

/-- Huber function of the docstring (with `|x|` where the docstring writes `x`) -/
noncomputable def huberF (delta x : ℝ) : ℝ :=
  if |x| ≤ delta then x ^ 2 / 2 else delta * |x| - delta ^ 2 / 2

/-- documented loss `F(u)` (plus the linear term in `w` for the SVC dual) of every datafit -/
noncomputable def docValue {n p : Nat} (d : DF ℝ) (sw y u : Fin n → ℝ) (w : Fin p → ℝ) : ℝ :=
  match d with
  | .quadratic => (1 / (2 * (n : ℝ))) * ∑ i, (y i - u i) ^ 2
  | .wquadratic => (1 / (2 * ∑ i, sw i)) * ∑ i, sw i * (y i - u i) ^ 2
  | .logistic => (1 / (n : ℝ)) * ∑ i, Real.log (1 + Real.exp (-(y i * u i)))
  | .huber delta => (1 / (n : ℝ)) * ∑ i, huberF delta (y i - u i)
  | .poisson => (1 / (n : ℝ)) * ∑ i, (Real.exp (u i) - y i * u i)
  | .gamma => (1 / (n : ℝ)) * ∑ i, (u i + y i * Real.exp (-(u i)) - 1 - Real.log (y i))
  | .svc => (1 / 2) * ∑ i, (u i) ^ 2 - ∑ j, w j

end Skglm.Spec
