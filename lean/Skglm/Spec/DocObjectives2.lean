import Skglm.Spec.DocObjectives
import Skglm.Model.Estimators2
/-
  Specification side for `GroupLasso`, `MultiTaskLasso`, `CoxEstimator` (`skglm/estimators.py`)
  and `SqrtLasso` (`skglm/experimental/sqrt_lasso.py`): the optimisation objective as written in
  each class docstring (for `CoxEstimator`: in the page `doc/tutorials/cox_datafit.rst` the
  docstring refers to), transcribed with explicit sums, independently of the model's kernels.
-/
namespace Skglm.Spec
open Skglm
variable {n p T : Nat}

/-! ### `GroupLasso`

    `1 / (2 n_samples) ‖y - X w‖² + alpha Σ_g weights_g ‖w_[g]‖₂`, "with `w_[g]` the coefficients
    of the g-th group", the groups being described by the docstring of the parameter `groups`. -/

/-- "feature `j` belongs to group number `g`" as the docstring of `groups` describes it:
    * an int: "groups are contiguous blocks of features, of size `groups`";
    * a list of ints: "groups are assumed to be contiguous, group number `g` being of size
      `groups[g]`";
    * a list of lists of ints: "`groups[g]` contains the feature indices of the group number `g`" -/
def inDocGroup (groups : GroupsArg p) (g : Nat) (j : Fin p) : Prop :=
  match groups with
  | .size k => g * k ≤ j.val ∧ j.val < g * k + k
  | .sizes l => (l.take g).sum ≤ j.val ∧ j.val < (l.take g).sum + l.getD g 0
  | .lists l => j ∈ l.getD g []

/-- the number of groups (for an int: the number of blocks of that size) -/
def docNumGroups (groups : GroupsArg p) : Nat :=
  match groups with
  | .size k => p / k
  | .sizes l => l.length
  | .lists l => l.length

open Classical in
/-- `‖w_[g]‖₂`: the Euclidean norm of the coefficients of the features of group `g` -/
noncomputable def docGroupNorm (groups : GroupsArg p) (w : Fin p → ℝ) (g : Nat) : ℝ :=
  Real.sqrt (∑ j, if inDocGroup groups g j then w j ^ 2 else 0)

/-- `weights_g` ("If `None`, weights equal to 1 are used") -/
def docGroupWeight (weights : Option (List ℝ)) (g : Nat) : ℝ :=
  match weights with
  | none => 1
  | some ws => ws.getD g 0

/-- the documented objective of `GroupLasso` at `(w, b)` -/
noncomputable def docGroupLasso (a : GroupLassoArgs ℝ p) (X : Fin n → Fin p → ℝ) (y : Fin n → ℝ)
    (w : Fin p → ℝ) (b : ℝ) : ℝ :=
  docLeastSquares X y w b
    + a.alpha * ∑ g ∈ Finset.range (docNumGroups a.groups),
        docGroupWeight a.weights g * docGroupNorm a.groups w g

/-! ### `MultiTaskLasso`

    `1 / (2 n_samples) ‖Y - XW‖² + alpha ‖W‖₂₁` (the squared norm of the residual matrix is the sum
    of its squared entries, as the docstring of `QuadraticMultiTask` writes it with `‖·‖_F`). -/

noncomputable def docMultiTaskLasso (alpha : ℝ) (X : Fin n → Fin p → ℝ) (Y : Fin n → Fin T → ℝ)
    (W : Fin p → Fin T → ℝ) (b : Fin T → ℝ) : ℝ :=
  1 / (2 * (n : ℝ)) * ∑ i, ∑ k, (Y i k - ((∑ j, X i j * W j k) + b k)) ^ 2
    + alpha * ∑ j, Real.sqrt (∑ k, W j k ^ 2)

/-! ### `CoxEstimator`

    datafit: equations `breslow-estimate` and `efron-estimate` of `doc/tutorials/cox_datafit.rst`;
    penalty: the paragraph of the parameter `l1_ratio`. -/

/-- `l(β) = 1/n Σ_i ( -s_i ⟨x_i, β⟩ + s_i log Σ_{y_j ≥ y_i} e^{⟨x_j, β⟩} )` at `u = Xβ` -/
noncomputable def docBreslow (tm s u : Fin n → ℝ) : ℝ :=
  1 / (n : ℝ) * ∑ i, (-(s i) * u i
    + s i * Real.log (∑ j, if tm i ≤ tm j then Real.exp (u j) else 0))

/-- `l(β) = 1/n Σ_l ( Σ_{i ∈ H_l} -⟨x_i, β⟩
        + Σ_{i ∈ H_l} log( Σ_{y_j ≥ y_{i_l}} e^{⟨x_j, β⟩} - (#(i) - 1)/|H_l| Σ_{j ∈ H_l} e^{⟨x_j, β⟩} ) )`
    at `u = Xβ`; `H` lists the sets `H_l` of uncensored observations with the same time, each in
    the order that defines `#(i)` (`#(i) - 1` is the position counted from `0`) -/
noncomputable def docEfron (tm : Fin n → ℝ) (H : List (List (Fin n))) (u : Fin n → ℝ) : ℝ :=
  1 / (n : ℝ) * (H.map (fun g =>
    (∑ k : Fin g.length, -(u (g.get k)))
    + ∑ k : Fin g.length, Real.log ((∑ j, if tm (g.get k) ≤ tm j then Real.exp (u j) else 0)
        - ((k.val : ℝ) / (g.length : ℝ)) * ∑ k' : Fin g.length, Real.exp (u (g.get k'))))).sum

/-- "For `l1_ratio = 0` the penalty is an L2 penalty.  For `l1_ratio = 1` it is an L1 penalty.  For
    `0 < l1_ratio < 1`, the penalty is a combination of L1 and L2" (the formulas are those of the
    docstrings of `L2` and `ElasticNet`) -/
noncomputable def docCoxPenalty (alpha r : ℝ) (w : Fin p → ℝ) : ℝ :=
  if r = 0 then alpha / 2 * ∑ j, w j ^ 2
  else if r = 1 then alpha * ∑ j, |w j|
  else r * alpha * ∑ j, |w j| + (1 - r) * alpha / 2 * ∑ j, w j ^ 2

/-- the documented objective of `CoxEstimator` at `w` (no intercept) -/
noncomputable def docCox (a : CoxArgs ℝ) (X : Fin n → Fin p → ℝ) (tm s : Fin n → ℝ)
    (H : List (List (Fin n))) (w : Fin p → ℝ) : ℝ :=
  (if a.efron then docEfron tm H (fun i => ∑ j, X i j * w j)
   else docBreslow tm s (fun i => ∑ j, X i j * w j))
    + docCoxPenalty a.alpha a.l1_ratio w

/-! ### `SqrtLasso`: `‖y - Xw‖₂ + alpha ‖w‖₁` -/

noncomputable def docSqrtLasso (alpha : ℝ) (X : Fin n → Fin p → ℝ) (y : Fin n → ℝ)
    (w : Fin p → ℝ) : ℝ :=
  Real.sqrt (∑ i, (y i - ∑ j, X i j * w j) ^ 2) + alpha * ∑ j, |w j|

/-- the *normalised* square-root Lasso objective `‖y - Xw‖₂ / sqrt(n_samples) + alpha ‖w‖₁`
    (the one the first `alpha` of `SqrtLasso.path` was computed for before commit 56310fe; not the
    docstring's) -/
noncomputable def normalisedSqrtLasso (alpha : ℝ) (X : Fin n → Fin p → ℝ) (y : Fin n → ℝ)
    (w : Fin p → ℝ) : ℝ :=
  Real.sqrt (∑ i, (y i - ∑ j, X i j * w j) ^ 2) / Real.sqrt (n : ℝ) + alpha * ∑ j, |w j|

end Skglm.Spec
