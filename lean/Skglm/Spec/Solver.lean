import Skglm.Spec.Penalties
import Skglm.Spec.Losses
import Skglm.Model.CD
import Skglm.Proofs.Subdiff
/-
  Specification side for the coordinate-descent solver: what "the buffer is consistent", "the
  point is feasible", "the objective", "the optimality certificate" mean, in terms of X, y, w, b
  only (never of the solver's own bookkeeping `Xw`).
-/
namespace Skglm.Spec
open Skglm
variable {n p : Nat}

/-- the model-fit buffer equals `X w + b·1` -/
def Consistent (P : CDProb ℝ n p) (s : CDState ℝ n p) : Prop :=
  ∀ i, s.Xw i = (∑ j, P.X i j * s.w j) + s.b

/-- `X w + b·1` -/
noncomputable def linPred (P : CDProb ℝ n p) (w : Fin p → ℝ) (b : ℝ) : Fin n → ℝ :=
  fun i => (∑ j, P.X i j * w j) + b

/-- every coefficient satisfies the configured constraint (documented penalty finite) -/
def Feasible (P : CDProb ℝ n p) (w : Fin p → ℝ) : Prop :=
  ∀ j, (pen P.pen (P.wts j) (w j)).isSome

/-- the documented objective `datafit(Xw + b) + Σ_j pen_j(w_j)` of a feasible point, from
    `X, y, w, b` alone (intercept unpenalised) -/
noncomputable def trueObj (P : CDProb ℝ n p) (w : Fin p → ℝ) (b : ℝ) : ℝ :=
  P.df.value P.sw P.y (linPred P w b) w + ∑ j, (pen P.pen (P.wts j) (w j)).getD 0

/-- the state's objective as the solver computes it, read as a real (`none` = +∞) -/
noncomputable def Ext.toOption : Ext ℝ → Option ℝ
  | .fin a => some a
  | .inf => none

/-- first-order optimality within `tol`, recomputed from `X, y, w, b` alone:
    for every feature the distance from minus the partial derivative of the loss to the regular
    sub-differential of the documented penalty is at most `tol`, and (with an intercept) the
    derivative in the intercept is at most `tol` in absolute value. -/
def Certificate (P : CDProb ℝ n p) (w : Fin p → ℝ) (b tol : ℝ) : Prop :=
  (∀ j, ∃ g, IsRegSubgrad (pen P.pen (P.wts j)) (w j) g ∧
      |(-(P.df.gradScalar P.X P.sw P.y (linPred P w b) j)) - g| ≤ tol) ∧
  (P.fitInt = true → |∑ i, P.df.rawGrad P.sw P.y (linPred P w b) i| ≤ tol)

/-- data for which the curvature theorems of C09 apply -/
def WellPosed (P : CDProb ℝ n p) : Prop :=
  (∀ i, 0 ≤ P.sw i) ∧ 0 < P.df.normaliser P.sw ∧
  (P.df = .logistic → ∀ i, P.y i = 1 ∨ P.y i = -1) ∧
  (∀ delta, P.df = .huber delta → 0 < delta) ∧
  (∃ c, P.df.curvBound = some c)

/-- the prox kernel of feature `j` returns a global minimiser at step `st` (this is what C07 proves for
    L1, WeightedL1, L1_plus_L2, MCP / WeightedMCP inside their range, IndicatorBox, PositiveConstraint) -/
def ProxOptimal (P : CDProb ℝ n p) (j : Fin p) (st : ℝ) : Prop :=
  ∀ x v, ProxLe P.pen (P.wts j) x st (P.pen.prox1 (P.wts j) x st) v

end Skglm.Spec
